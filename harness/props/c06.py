"""C06 — sort-merge joins implement the relational join operators exactly."""
import re
from collections import Counter
from .. import lean, proto, gen, util

REQUIRED = ['Petl.C06.' + n for n in (
    'join_eq_nested_loop leftjoin_eq_nested_loop outerjoin_perm join_relational antijoin_eq_filter '
    'lookupjoin_eq_first_partner none_key_matches_none '
    'crossjoin_view crossjoin_two crossjoin_assoc crossjoin_count crossjoin_two_getElem mem_crossjoin_iff').split()]

KINDS = ['inner', 'left', 'right', 'outer', 'anti', 'lookup']
FN = {'inner': 'join', 'left': 'leftjoin', 'right': 'rightjoin', 'outer': 'outerjoin', 'anti': 'antijoin', 'lookup': 'lookupjoin'}


def norm_tok(t):
    """token normalised so that equal normalised tokens <=> Comparable equality"""
    t = re.sub(r'(Q-?\d+/\d+|I[+-]):[bifd]', r'\1', t)
    return re.sub(r'\bL(\d+)', r'U\1', t)


def canon(rows, kidx):
    """rows of cell-token tuples -> list of key groups (consecutive equal keys), each sorted"""
    out = []
    cur_key = object()
    for r in rows:
        k = tuple(norm_tok(r[i]) if i < len(r) else 'N' for i in kidx)
        if k != cur_key:
            out.append([])
            cur_key = k
        out[-1].append(r)
    return [sorted(g) for g in out]


def gen_pair(rng, thorough):
    """a pair of tables with a join key; returns (L, R, lkey, rkey, natural)"""
    nk = rng.choice([1, 1, 1, 2])
    pool_kind = rng.random()
    if pool_kind < 0.5:
        kp = gen.INT_KEYS + [None]
    elif pool_kind < 0.75:
        kp = gen.SCALAR_KEYS
    elif pool_kind < 0.85:
        # numbers of different types that are equal, and ones that are unequal by less than float rounding
        from decimal import Decimal as _D
        kp = [0.1, _D('0.1'), _D('2.675'), 2.675, 1, 1.0, _D('1'), None]
    else:
        kp = gen.SMALL_KEYS
    names = list(gen.FIELD_NAMES)
    rng.shuffle(names)
    keynames = names[:nk]
    lextra = names[nk:nk + rng.choice([0, 1, 1, 2])]
    rextra = names[nk + 2:nk + 2 + rng.choice([0, 1, 1, 2])]
    same_names = rng.random() < 0.6
    rkeynames = keynames if same_names else ['r' + k for k in keynames]
    lh = list(keynames) + lextra
    rh = list(rkeynames) + rextra
    if not same_names and rng.random() < 0.4:
        rh.append(rng.choice(keynames))      # a right field that is not a key but is named like a left key field (self joins: id = boss)
    # shuffle field positions so that key columns sit at different places
    lperm = list(range(len(lh))); rng.shuffle(lperm)
    rperm = list(range(len(rh))); rng.shuffle(rperm)
    lh = [lh[i] for i in lperm]
    rh = [rh[i] for i in rperm]
    maxn = 7 if thorough else 5
    def mk(h, keyset):
        pools = {j: (kp if h[j] in keyset else gen.TEXT + [None, 1, 2.5]) for j in range(len(h))}
        return gen.table(rng, h, pools=pools, maxn=maxn, ragged=0.25)
    L = mk(lh, set(keynames))
    R = mk(rh, set(rkeynames))
    if nk == 1:
        lkey, rkey = keynames[0], rkeynames[0]
        if rng.random() < 0.2:
            lkey, rkey = lh.index(lkey), rh.index(rkey)
    else:
        order = list(range(nk)); rng.shuffle(order)
        lkey = tuple(keynames[i] for i in order)
        rkey = tuple(rkeynames[i] for i in order)
    natural = same_names and not (set(lextra) & set(rextra)) and rng.random() < 0.3
    if natural:
        # natural_key(): the common fields in the left header's order
        common = [f for f in lh if f in rh]
        lkey = rkey = common[0] if len(common) == 1 else common
    return L, R, lkey, rkey, natural


def ref_join(kind, L, R, lkey, rkey, missing):
    """nested-loop reference on the real objects -> Counter of row tokens"""
    from petl.comparison import Comparable, comparable_itemgetter
    from petl.util.base import asindices
    lh, rh = L[0], R[0]
    lk, rk = asindices(lh, lkey), asindices(rh, rkey)
    lw, rw = len(lh), len(rh)
    sq = (lambda r, w: tuple(r)) if kind == 'anti' else (lambda r, w: tuple((list(r) + [missing] * w)[:w]))
    Ls = [sq(r, lw) for r in L[1:]]
    Rs = [sq(r, rw) for r in R[1:]]
    gl, gr = comparable_itemgetter(*lk), comparable_itemgetter(*rk)
    rv = [i for i in range(rw) if i not in rk]
    out = []
    matched_r = set()
    for l in Ls:
        kl = gl(l)
        ms = [j for j, r in enumerate(Rs) if kl == gr(r)]
        matched_r.update(ms)
        if kind == 'anti':
            if not ms:
                out.append(l)
        elif kind == 'lookup':
            out.append(l + tuple(Rs[ms[0]][i] for i in rv) if ms else l + (missing,) * len(rv))
        else:
            for j in ms:
                out.append(l + tuple(Rs[j][i] for i in rv))
            if not ms and kind in ('left', 'outer'):
                out.append(l + (missing,) * len(rv))
    if kind in ('right', 'outer'):
        for j, r in enumerate(Rs):
            if j not in matched_r:
                row = [missing] * lw
                for li, ri in zip(lk, rk):
                    row[li] = r[ri]
                out.append(tuple(row) + tuple(r[i] for i in rv))
    return Counter(proto.enc_row(r) for r in out), lk


def check_against_ref(etl, kind, L, R, lkey, rkey, missing, real_rows, real_err):
    """None if the real output is the relational join (multiset + ascending key groups), else a description"""
    from petl.comparison import comparable_itemgetter
    if real_err is not None:
        return 'raised ' + real_err
    try:
        ref, lk = ref_join(kind, L, R, lkey, rkey, missing)
    except Exception as e:    # noqa
        return None   # reference not applicable (e.g. bad key): nothing to compare
    got = Counter(proto.enc_row(r) for r in real_rows[1:])
    if got != ref:
        return 'row multiset differs from the relational join: extra %s missing %s' % (
            list((got - ref).items())[:3], list((ref - got).items())[:3])
    gk = comparable_itemgetter(*lk)
    ks = [gk(r) for r in real_rows[1:]]
    for a, b in zip(ks, ks[1:]):
        if b < a:
            return 'output keys are not in ascending order'
    return None


def run(ctx):
    import petl as etl
    ctx.rule = ('pairs of small tables (0-5 rows each; 0-7 thorough) with single/compound keys at shuffled column positions, key '
                'cells from small pools (ints+None / scalars / mixed types) so duplicate keys on both sides are frequent, ragged '
                'rows, lkey != rkey names, natural key, missing value, lprefix/rprefix; each of join/leftjoin/rightjoin/outerjoin/'
                'antijoin/lookupjoin (+ crossjoin) on the real code vs the model: header exact, data rows as key groups in order '
                'with the multiset inside each group; exact row order recorded. Non-trivial: both sides non-empty.')
    ctx.assumptions += ['itertools.groupby groups adjacent equal keys; stack() squares rows up; sort as in C05']
    from translators import fingerprints as _fp
    try:
        _fpi = _fp.generate()
        ctx.bridge('translator: fingerprints of the petl functions the hand-written models mirror (%d bodies)' % _fpi['names'], True)
    except Exception as e:   # noqa
        ctx.bridge('translator: source fingerprints extracted', False, repr(e))
    ctx.prove(["PetlProofs.Props.C06", 'PetlProofs.Snapshot.C06'], REQUIRED + ['Petl.Snapshot.C06_sources_as_validated'])
    rng = ctx.rng
    n = 2500 if ctx.thorough() else 350
    lines, metas = [], []
    for ci in range(n):
        L, R, lkey, rkey, natural = gen_pair(rng, ctx.thorough())
        missing = rng.choice([None, None, None, 'NA', -1])
        lp = rng.choice([None, None, None, 'l_'])
        rp = rng.choice([None, None, None, 'r_'])
        bs = rng.choice([None, None, 1, 2, 3])
        for kind in KINDS:
            try:
                line = 'join %s %s %s %s %s %s %s %s %s' % (
                    kind, proto.enc(None if kind in ('inner', 'anti') else missing), '-' if (lp is None or kind == 'anti') else proto.enc(lp),
                    '-' if (rp is None or kind == 'anti') else proto.enc(rp),
                    util.enc_key(lkey), util.enc_key(rkey), proto.enc_opt(bs), proto.enc_table(L), proto.enc_table(R))
            except proto.Unencodable:
                continue
            lines.append(line)
            metas.append((kind, L, R, lkey, rkey, natural, missing, lp, rp, bs))
    model = lean.run_driver(lines)
    exits = Counter()
    for (kind, L, R, lkey, rkey, natural, missing, lp, rp, bs), line, spec in zip(metas, lines, model):
        if kind in ('inner', 'anti'):
            missing = None
        fn = getattr(etl, FN[kind])
        kw = {}
        if kind != 'anti':
            kw['missing'] = missing
            if kind != 'lookup' or True:
                kw['lprefix'] = lp
                kw['rprefix'] = rp
        if kind == 'inner':
            kw.pop('missing')
        kw['buffersize'] = bs
        if natural:
            thunk = lambda: fn(L, R, **kw)
        elif lkey == rkey:
            thunk = lambda: fn(L, R, key=lkey, **kw)
        else:
            thunk = lambda: fn(L, R, lkey=lkey, rkey=rkey, **kw)
        try:
            rows, err = util.collect(thunk())
        except Exception as e:    # noqa
            rows, err = [], util.errkind(e)
        real = util.show_out(rows, err)
        nl, nr = len(L) - 1, len(R) - 1
        ctx.case((line,) if nl and nr else None,
                 sample={'op': FN[kind], 'left': repr(L), 'right': repr(R), 'lkey': repr(lkey), 'rkey': repr(rkey),
                         'missing': repr(missing), 'out': real} if len(ctx.samples) < 4 and nl > 1 and nr > 1 else None)
        ctx.count('kind:' + kind)
        ctx.count('sides:%s/%s' % ('empty' if nl == 0 else 'rows', 'empty' if nr == 0 else 'rows'))
        case = {'op': FN[kind], 'left': repr(L), 'right': repr(R), 'lkey': repr(lkey), 'rkey': repr(rkey), 'natural': natural,
                'missing': repr(missing), 'lprefix': lp, 'rprefix': rp, 'buffersize': bs, 'real': real, 'spec': spec, 'line': line}
        if spec.startswith(('PARSE', 'BADOP')):
            ctx.corr_fail(FN[kind], 'driver: ' + spec, case)
            continue
        ctx.exact(real == spec, case)
        if real == spec:
            continue
        # property-level comparison: header exact, groups in order, multiset inside a group
        ok = False
        if ' ERR ' not in real and ' ERR ' not in spec and not real.startswith('UNENC'):
            rt, st = proto.parse_table(real), proto.parse_table(spec)
            try:
                from petl.util.base import asindices
                lk = asindices(L[0], lkey)
            except Exception:   # noqa
                lk = []
            ok = rt[:1] == st[:1] and canon(rt[1:], lk) == canon(st[1:], lk)
        if ok:
            continue
        why = check_against_ref(etl, kind, L, R, lkey, rkey, missing, rows, err)
        if why is None and ' ERR ' not in spec:
            # header disagreement?
            rt, st = proto.parse_table(real), proto.parse_table(spec)
            if rt[:1] != st[:1]:
                why = 'header differs: %s vs %s' % (rt[:1], st[:1])
        if why is not None:
            feats = []
            if nr == 0:
                feats.append('right-empty')
            if nl == 0:
                feats.append('left-empty')
            from petl.util.base import asindices
            try:
                lkx = asindices(L[0], lkey)
                if any(all((r[i] if i < len(r) else None) is None for i in lkx) for r in L[1:]):
                    feats.append('none-key')
            except Exception:   # noqa
                pass
            ctx.spec_fail('%s|%s|%s' % (FN[kind], 'raises' if err else 'wrong-rows', '+'.join(feats) or 'general'),
                          '%s is not the relational join: %s' % (FN[kind], why), case)
        else:
            ctx.corr_fail(FN[kind], 'real output is the relational join but differs from the model at property level', case)
    # ---- crossjoin
    clines, cmetas = [], []
    for ci in range(n // 4):
        k = rng.choice([1, 2, 2, 3])
        ts = [gen.table(rng, gen.header(rng, n=rng.choice([1, 2])), maxn=3, default_pool=[1, 2, 'a', None]) for _ in range(k)]
        missing = rng.choice([None, 'NA'])
        clines.append('crossjoin %s %s' % (proto.enc(missing), proto.enc_list(ts, proto.enc_table)))
        cmetas.append((ts, missing))
    for (ts, missing), spec in zip(cmetas, lean.run_driver(clines)):
        real = util.run_show(lambda: etl.crossjoin(*ts, missing=missing))
        ctx.case(('cross', repr(ts)) if all(len(t) > 1 for t in ts) else None)
        ctx.count('kind:crossjoin')
        ctx.exact(real == spec, {'op': 'crossjoin', 'tables': repr(ts)})
        if real != spec:
            ctx.spec_fail('crossjoin|differs', 'crossjoin is not the product of the squared-up tables',
                          {'op': 'crossjoin', 'tables': repr(ts), 'missing': repr(missing), 'real': real, 'spec': spec})
    # ---- argument forms the model does not speak: natural keys over integer field names, presorted=True
    for ci in range(300 if ctx.thorough() else 60):
        L, R, lkey, rkey, natural = gen_pair(rng, ctx.thorough())
        # (a) a natural join whose common field is named by an integer equals the join on the positions of that field
        iname = rng.choice([0, 1, 2021, -1])
        kp = gen.INT_KEYS + [None, 'a']
        Li = gen.table(rng, [iname, 'lx'], pools={0: kp, 1: gen.TEXT}, maxn=5, ragged=0.0)
        Ri = gen.table(rng, ['ry', iname], pools={1: kp, 0: gen.TEXT}, maxn=5, ragged=0.0)
        for kind, fn in FN.items():
            a = util.run_show(lambda: getattr(etl, fn)(Li, Ri))
            b = util.run_show(lambda: getattr(etl, fn)(Li, Ri, lkey=0, rkey=1))
            ctx.case((fn, 'int-named-natural-key', repr(Li), repr(Ri)) if len(Li) > 2 and len(Ri) > 2 else None)
            ctx.count('natural-key:int-name')
            if a != b:
                ctx.spec_fail('%s|natural-key|int-field-name' % fn, '%s without key arguments on a common field named %r differs from the join on that field' % (fn, iname),
                              {'op': fn, 'left': repr(Li), 'right': repr(Ri), 'natural': a, 'by_position': b})
        # (b) presorted=True on inputs sorted by the key is the default call (ragged rows included)
        try:
            Ls, Rs = list(etl.sort(L, lkey)), list(etl.sort(R, rkey))
        except Exception:   # noqa
            continue
        for kind, fn in FN.items():
            kw = {'lkey': lkey, 'rkey': rkey}
            a = util.run_show(lambda: getattr(etl, fn)(L, R, **kw))
            b = util.run_show(lambda: getattr(etl, fn)(Ls, Rs, presorted=True, **kw))
            ctx.case((fn, 'presorted', repr(L), repr(R)) if len(L) > 2 and len(R) > 2 else None)
            ctx.count('presorted')
            if a != b:
                ctx.spec_fail('%s|presorted|differs' % fn, '%s(presorted=True) on key-sorted inputs differs from the default call' % fn,
                              {'op': fn, 'left_sorted': repr(Ls), 'right_sorted': repr(Rs), 'lkey': repr(lkey), 'rkey': repr(rkey), 'default': a, 'presorted': b})

    # ---- operands that are sort views
    util.view_operand_cases(etl, rng, ctx, [
        ('join', 2, lambda a, b: etl.join(a, b, key='x')), ('leftjoin', 2, lambda a, b: etl.leftjoin(a, b, key='x')),
        ('rightjoin', 2, lambda a, b: etl.rightjoin(a, b, key='x')), ('outerjoin', 2, lambda a, b: etl.outerjoin(a, b, key='x')),
        ('antijoin', 2, lambda a, b: etl.antijoin(a, b, key='x')), ('lookupjoin', 2, lambda a, b: etl.lookupjoin(a, b, key='x')),
        ('join(compound)', 2, lambda a, b: etl.join(a, b, key=('x', 'xy'))), ('join(xy)', 2, lambda a, b: etl.join(a, b, key='xy')),
        ('outerjoin(missing)', 2, lambda a, b: etl.outerjoin(a, b, key='x', missing='NA')),
    ], 360 if ctx.thorough() else 90)
    util.exotic_key_cases(etl, rng, ctx, 'C06', 200 if ctx.thorough() else 50)
    util.positional_call_cases(etl, rng, ctx, ['join', 'leftjoin', 'rightjoin', 'outerjoin', 'antijoin', 'lookupjoin'], 120 if ctx.thorough() else 36, 2)

def replay(d):
    print('replay case:', d.get('case'))
    return 0
