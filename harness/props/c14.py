"""C14 — reshape operators are mutually inverse and cell-exact."""
import re
from .. import lean, proto, gen, util

REQUIRED = ['Petl.C14.' + n for n in (
    'transpose_involutive unflatten_flatten melt_row_count melt_cells unpack_frame expand_frame splitdown_frame '
    'fromcolumns_columns recast_cell pivot_blocks pivot_cell pivotRows_spec').split()] + ['Petl.RecastMelt.' + n for n in (
    'recast_melt_rows recast_melt_eq recast_melt_table recast_melt_identity molten_eq_melt group_block strictAsc_ext').split()]

CELLS = [None, 1, 2, 2.5, 'a', 'b', '', True]
KEYS = [None, 1, 2, 3, 'a', 'b', 2.5, (1, 'a')]


def uniq_key_table(rng, nk, nv, maxn=5):
    names = list(gen.FIELD_NAMES)
    rng.shuffle(names)
    kf, vf = names[:nk], sorted(names[nk:nk + nv], key=lambda s: rng.random())
    hdr = kf + vf
    order = list(range(len(hdr))); rng.shuffle(order)
    hdr = [hdr[i] for i in order]
    n = rng.choice([0, 1, 2, 3, maxn])
    seen, rows = [], []
    for _ in range(n * 3):
        if len(rows) >= n:
            break
        k = tuple(rng.choice(KEYS) for _ in kf)
        if any(k == s for s in seen):
            continue
        seen.append(k)
        row = [None] * len(hdr)
        for f, v in zip(kf, k):
            row[hdr.index(f)] = v
        for f in vf:
            row[hdr.index(f)] = rng.choice(CELLS)
        rows.append(row)
    return [hdr] + rows, kf, vf


def _after_overlap(view):
    """a leading pass, a second pass that starts behind it, both run to the end; then what a fresh pass delivers"""
    a = iter(view)
    for _ in range(3):
        next(a, None)
    b = iter(view)
    next(b, None)
    next(b, None)
    for _ in a:
        pass
    for _ in b:
        pass
    return view


def run(ctx):
    import petl as etl
    ctx.rule = ('rectangular tables with unique (None / mixed-type / compound) keys, every split into key and variable fields: '
                'melt, recast(melt) vs sort, transpose twice, unflatten(flatten) for every period, pivot, unpack, unpackdict, '
                'capture/split/splitdown (regex results from re), fromdicts(dicts), fromcolumns(columns); plus ragged inputs for '
                'melt/unpack. Real vs model (exact) and the inverse identities on the real code. Non-trivial: >= 2 data rows.')
    ctx.assumptions += ['re (regex results are passed to the model), sorted() on field names / pivot values of one type',
                        'dict cells are coded as sequences of (key, value) pairs']
    from translators import fingerprints as _fp
    try:
        _fpi = _fp.generate()
        ctx.bridge('translator: fingerprints of the petl functions the hand-written models mirror (%d bodies)' % _fpi['names'], True)
    except Exception as e:   # noqa
        ctx.bridge('translator: source fingerprints extracted', False, repr(e))
    ctx.prove(['PetlProofs.Props.C14', 'PetlProofs.Props.C14Pivot', 'PetlProofs.RecastMelt', 'PetlProofs.Snapshot.C14'], REQUIRED + ['Petl.Snapshot.C14_sources_as_validated'])
    rng = ctx.rng
    n = 1200 if ctx.thorough() else 200
    jobs = []

    def add(name, line, thunk, case, nt):
        jobs.append((name, line, thunk, case, nt))
    for ci in range(n):
        nk, nv = rng.choice([1, 1, 2]), rng.choice([1, 2, 3])
        T, kf, vf = uniq_key_table(rng, nk, nv)
        hdr = T[0]
        tt = proto.enc_table(T)
        nt = len(T) > 2
        key = kf[0] if nk == 1 and rng.random() < 0.6 else list(kf)
        base = {'table': repr(T), 'key': repr(key)}
        # melt (variables inferred / given)
        how = rng.choice(['key', 'vars', 'both'])
        kw = {}
        if how in ('key', 'both'):
            kw['key'] = key
        if how in ('vars', 'both'):
            kw['variables'] = list(vf)
        kspec = [f for f in hdr if f in kf] if how == 'vars' else (list(kf) if isinstance(key, list) else [key])
        vspec = [f for f in hdr if f in vf] if how == 'key' else list(vf)
        add('melt', 'rs melt %s %s %s %s %s' % (util.enc_key(kspec), util.enc_key(vspec), proto.enc('variable'), proto.enc('value'), tt),
            lambda T=T, kw=kw: etl.melt(T, **kw), dict(base, args=repr(kw)), nt)
        # ragged melt
        R = [list(r) for r in T]
        if len(R) > 1:
            j = rng.randrange(1, len(R))
            R[j] = R[j][:rng.randrange(0, len(hdr))]
            add('melt(ragged)', 'rs melt %s %s %s %s %s' % (util.enc_key(list(kf)), util.enc_key([f for f in hdr if f in vf]), proto.enc('variable'), proto.enc('value'), proto.enc_table(R)),
                lambda R=R, kf=kf: etl.melt(R, key=list(kf)), dict(table=repr(R), key=repr(kf)), nt)
        # recast(melt(t)) : the model on the melted table, and the inverse identity on the real code
        M = [tuple(r) for r in etl.melt(T, key=list(kf))]
        bs = rng.choice([None, 1, 2])
        add('recast(melt)', 'rs recast %s %s %s N %s %s' % (util.enc_key(list(kf)), proto.enc('variable'), proto.enc('value'), proto.enc_opt(bs), proto.enc_table(M)),
            lambda M=M, kf=kf, bs=bs: etl.recast(M, key=list(kf)), dict(base, melted=repr(M)), nt)
        # transpose, twice
        add('transpose', 'rs transpose %s' % tt, lambda T=T: etl.transpose(T), base, nt)
        add('transpose∘transpose', 'skip 0 %s' % tt, lambda T=T: etl.transpose(etl.transpose(T)), base, nt)
        # flatten / unflatten
        add('flatten', 'rs flatten %s' % tt, lambda T=T: [tuple(etl.flatten(T))], base, nt)
        per = rng.choice([1, 2, 3, len(hdr), len(hdr) + 1])
        vals = [c for r in T[1:] for c in r]
        m = rng.choice([None, 'NA'])
        add('unflatten', 'rs unflatten %d %s %s' % (per, proto.enc(m), proto.enc(tuple(vals))), lambda vals=vals, per=per, m=m: etl.unflatten(vals, per, missing=m), dict(values=repr(vals), period=per), nt)
        if len(T) > 1:
            add('unflatten∘flatten', 'skip 1 %s' % tt, lambda T=T, hdr=hdr: list(etl.unflatten(etl.flatten(T), len(hdr)))[1:], base, nt)
        # pivot: f1,f2 from small text pools, f3 ints
        cpool = rng.choice([['p', 'q'], ['p', 'q'], ['p', None, 1], [2, 1, None], ['p', b'p', (1, 'a')]])     # column values: one type, or mixed with None
        P = [['r', 'c', 'v']] + [[rng.choice(['x', 'y', 'z']), rng.choice(cpool), rng.choice([1, 2, 5])] for _ in range(rng.choice([0, 1, 3, 6]))]
        an = rng.choice(['sum', 'len', 'list', 'max'])
        fn = {'sum': sum, 'len': len, 'list': list, 'max': max}[an]
        add('pivot', 'rs pivot 0 1 2 %s %s %s %s' % (an, proto.enc(m), proto.enc_opt(bs), proto.enc_table(P)), lambda P=P, fn=fn, m=m, bs=bs: etl.pivot(P, 'r', 'c', 'v', fn, missing=m, buffersize=bs), dict(table=repr(P), agg=an), len(P) > 2)
        # unpack
        U = [['id', 'seq', 'z']] + [[i, rng.choice([(1, 2), (1,), (), [3, 4, 5], 'ab', ('x', None)]), rng.choice(CELLS)] for i in range(rng.choice([0, 1, 3]))]
        nun = rng.choice([0, 1, 2, 3])
        incl = rng.random() < 0.4
        names = rng.choice([None, ['u%d' % i for i in range(nun)]])
        add('unpack', 'rs unpack 1 %d %s %s %s %s' % (nun, '-' if names is None else proto.enc_row(names), proto.enc_bool(incl), proto.enc(m), proto.enc_table(U)),
            lambda U=U, nun=nun, names=names, incl=incl, m=m: etl.unpack(U, 'seq', nun if names is None else names, include_original=incl, missing=m), dict(table=repr(U), n=nun, names=repr(names), include_original=incl), len(U) > 2)
        # unpack where an earlier cell of the row equals the unpacked cell (dropping the original must go by position, not by value)
        U2 = [['dup', 'id', 'seq', 'z']]
        for i in range(rng.choice([1, 3, 4])):
            sv = rng.choice([(1, 2), (1,), [3, 4, 5], 'ab', ('x', None)])
            U2.append([sv if rng.random() < 0.7 else rng.choice(CELLS), i, sv, rng.choice(CELLS)])
        incl2 = rng.random() < 0.25
        add('unpack', 'rs unpack 2 %d %s %s %s %s' % (nun, '-' if names is None else proto.enc_row(names), proto.enc_bool(incl2), proto.enc(m), proto.enc_table(U2)),
            lambda U2=U2, nun=nun, names=names, incl2=incl2, m=m: etl.unpack(U2, 'seq', nun if names is None else names, include_original=incl2, missing=m), dict(table=repr(U2), n=nun, names=repr(names), include_original=incl2), len(U2) > 2)
        # unpackdict
        D = [['id', 'd']] + [[i, rng.choice([{'a': 1}, {'b': 2, 'a': None}, {}, {'c': 'x'}, None])] for i in range(rng.choice([0, 1, 3]))]
        Dm = [D[0]] + [[r[0], (tuple(r[1].items()) if isinstance(r[1], dict) else r[1])] for r in D[1:]]
        keys = rng.choice([None, None, ['a', 'c'], ['b']])
        add('unpackdict', 'rs unpackdict 1 %s %s %s %s' % (proto.enc_bool(incl), proto.enc(m), '-' if keys is None else proto.enc(tuple(keys)), proto.enc_table(Dm)),
            lambda D=D, keys=keys, incl=incl, m=m: [tuple((tuple(c.items()) if isinstance(c, dict) else c) for c in r) for r in etl.unpackdict(D, 'd', keys=keys, includeoriginal=incl, missing=m)],
            dict(table=repr(D), keys=repr(keys), includeoriginal=incl), len(D) > 2)
        # capture / split / splitdown with real regex results
        S = [['id', 's', 'z']] + [[i, rng.choice(['a1b2', 'x9', 'ab', '1', 'a-b-c', '']), rng.choice(CELLS)] for i in range(rng.choice([0, 1, 3]))]
        parts_split = [re.split('-|(?<=\\d)(?=[a-z])', r[1]) if False else r[1].split('-') for r in S[1:]]
        add('split', 'rs expand 1 %s %s %s %s' % (proto.enc_bool(incl), proto.enc_row(['p', 'q']), proto.enc_table(S), proto.enc_table(parts_split)),
            lambda S=S, incl=incl: etl.split(S, 's', '-', ['p', 'q'], include_original=incl), dict(table=repr(S), include_original=incl), len(S) > 2)
        # rarely used arguments: flags and maxsplit must reach the regular expression
        parts_fl = [re.split('B', r[1], flags=re.I) for r in S[1:]]
        add('split(flags)', 'rs expand 1 %s %s %s %s' % (proto.enc_bool(incl), proto.enc_row(['p', 'q']), proto.enc_table(S), proto.enc_table(parts_fl)),
            lambda S=S, incl=incl: etl.split(S, 's', 'B', ['p', 'q'], include_original=incl, flags=re.I), dict(table=repr(S), include_original=incl, flags='re.I'), len(S) > 2)
        parts_ms = [r[1].split('-', 1) for r in S[1:]]
        add('split(maxsplit)', 'rs expand 1 %s %s %s %s' % (proto.enc_bool(incl), proto.enc_row(['p', 'q']), proto.enc_table(S), proto.enc_table(parts_ms)),
            lambda S=S, incl=incl: etl.split(S, 's', '-', ['p', 'q'], include_original=incl, maxsplit=1), dict(table=repr(S), include_original=incl, maxsplit=1), len(S) > 2)
        caps_fl = []
        for r in S[1:]:
            mm = re.search('([A-Z]+)(\\d*)', r[1], flags=re.I)
            caps_fl.append(list(mm.groups()) if mm else ['NOMATCH', ''])
        add('capture(flags)', 'rs expand 1 %s %s %s %s' % (proto.enc_bool(incl), proto.enc_row(['let', 'num']), proto.enc_table(S), proto.enc_table(caps_fl)),
            lambda S=S, incl=incl: etl.capture(S, 's', '([A-Z]+)(\\d*)', ['let', 'num'], include_original=incl, fill=['NOMATCH', ''], flags=re.I), dict(table=repr(S), include_original=incl, flags='re.I'), len(S) > 2)
        add('splitdown', 'rs splitdown 1 %s %s' % (proto.enc_table(S), proto.enc_table(parts_split)), lambda S=S: etl.splitdown(S, 's', '-'), dict(table=repr(S)), len(S) > 2)
        caps = []
        for r in S[1:]:
            mm = re.search('([a-z]+)(\\d*)', r[1])
            caps.append(list(mm.groups()) if mm else ['NOMATCH', ''])
        add('capture', 'rs expand 1 %s %s %s %s' % (proto.enc_bool(incl), proto.enc_row(['let', 'num']), proto.enc_table(S), proto.enc_table(caps)),
            lambda S=S, incl=incl: etl.capture(S, 's', '([a-z]+)(\\d*)', ['let', 'num'], include_original=incl, fill=['NOMATCH', '']), dict(table=repr(S), include_original=incl), len(S) > 2)
        # round trips through dicts / columns
        if len(T) > 1:
            add('fromdicts∘dicts', 'skip 0 %s' % tt, lambda T=T, hdr=hdr: etl.fromdicts(list(etl.dicts(T)), header=hdr), base, nt)
            add('fromdicts∘dicts(no header)', 'skip 0 %s' % tt, lambda T=T: etl.fromdicts(list(etl.dicts(T))), base, nt)
            if len(T) > 1:
                # every dict has every key: any sample size finds the header (sample=1 included), from a list, an iterator, a generator
                for smp in (1, 2):
                    add('fromdicts∘dicts(sample=%d)' % smp, 'skip 0 %s' % tt, lambda T=T, smp=smp: etl.fromdicts(list(etl.dicts(T)), sample=smp), base, nt)
                    add('fromdicts∘dicts(generator, sample=%d)' % smp, 'skip 0 %s' % tt, lambda T=T, smp=smp: etl.fromdicts((d for d in list(etl.dicts(T))), sample=smp), base, nt)
                add('fromdicts∘dicts(iterator)', 'skip 0 %s' % tt, lambda T=T, hdr=hdr: etl.fromdicts(iter(list(etl.dicts(T))), header=hdr), base, nt)
            add('fromdicts∘dicts(generator)', 'skip 0 %s' % tt, lambda T=T, hdr=hdr: etl.fromdicts((d for d in list(etl.dicts(T))), header=hdr), base, nt)
            add('fromdicts∘dicts(generator, pass after two overlapping passes)', 'skip 0 %s' % tt,
                lambda T=T, hdr=hdr: _after_overlap(etl.fromdicts((d for d in list(etl.dicts(T))), header=hdr)), base, nt)
            add('fromcolumns∘columns', 'skip 0 %s' % tt, lambda T=T, hdr=hdr: etl.fromcolumns([etl.columns(T)[f] for f in hdr], header=hdr), base, nt)
        cols = [[rng.choice(CELLS) for _ in range(rng.choice([0, 1, 2, 3]))] for _ in range(rng.choice([1, 2, 3]))]
        add('fromcolumns', 'rs fromcolumns %s %s' % (proto.enc(m), proto.enc_table(cols)), lambda cols=cols, m=m: etl.fromcolumns(cols, missing=m), dict(cols=repr(cols)), True)
    model = lean.run_driver([j[1] for j in jobs])
    for (name, line, thunk, case, nt), spec in zip(jobs, model):
        real = util.run_show(thunk)
        ctx.case((name, line) if nt else None, sample=dict(case, op=name, out=real) if len(ctx.samples) < 8 and nt and ctx.evaluations % 41 == 0 else None)
        ctx.count('op:' + name)
        c2 = dict(case, op=name, real=real, spec=spec)
        if spec.startswith(('PARSE', 'BADOP', 'ERR unsupported')):
            ctx.corr_fail(name, 'driver: ' + spec, c2)
            continue
        if real.startswith('UNENC'):
            continue
        ctx.exact(real == spec, c2)
        if real != spec:
            kind = 'raises' if ' ERR ' in real and ' ERR ' not in spec else 'wrong-cells'
            ctx.spec_fail('%s|%s' % (name, kind), '%s is not cell-exact / not the inverse' % name, c2)
    # recast(melt(t)) == sort(t, key) with variable fields in sorted order: the identity itself, on the real code
    for ci in range(n // 2):
        nk, nv = rng.choice([1, 2]), rng.choice([1, 2, 3])
        T, kf, vf = uniq_key_table(rng, nk, nv)
        try:
            got = util.show_out(*util.collect(etl.recast(etl.melt(T, key=list(kf)), key=list(kf))))
            want_hdr = list(kf) + sorted(vf)
            want = util.show_out(*util.collect(etl.cut(etl.sort(T, key=list(kf)), *want_hdr))) if len(T) > 1 else util.show_out([tuple(list(kf))])
        except Exception as e:   # noqa
            got, want = 'ERR', repr(e)
        ctx.case(('identity', repr(T)) if len(T) > 2 else None)
        ctx.count('op:recast∘melt identity')
        if got != want:
            ctx.spec_fail('recast(melt)|identity', 'recast(melt(t)) does not reproduce t sorted by key with sorted variable fields',
                          {'table': repr(T), 'key': repr(kf), 'got': got, 'want': want})
        # the variables named up front, in any order (variablefield={'variable': [...]}), and melt with its variables listed
        # explicitly in any order: same cells, fields in the order given
        if len(T) > 1 and len(vf) >= 2:
            order = list(vf)
            rng.shuffle(order)
            try:
                got2 = util.show_out(*util.collect(etl.recast(etl.melt(T, key=list(kf), variables=list(reversed(order))), key=list(kf),
                                                              variablefield={'variable': order})))
                want2 = util.show_out(*util.collect(etl.cut(etl.sort(T, key=list(kf)), *(list(kf) + order))))
            except Exception as e:   # noqa
                got2, want2 = 'ERR', repr(e)
            ctx.case(('identity-named-variables', repr(T), repr(order)))
            ctx.count('op:recast∘melt identity (variables named)')
            if got2 != want2:
                ctx.spec_fail('recast(melt)|identity|named-variables', 'recast(melt(t, variables=...), variablefield={...: names}) does not reproduce t with the fields in the order named',
                              {'table': repr(T), 'key': repr(kf), 'variables': repr(order), 'got': got2, 'want': want2})

    # ---- the pattern of capture / split / splitdown given as a compiled pattern (with its own flags) behaves like the same
    # pattern and flags given separately
    import re as _re
    for ci in range(120 if ctx.thorough() else 30):
        S = [['id', 's']] + [[i, rng.choice(['aXb', 'axb', 'a\nxb', 'AxB', 'ab', 'x'])] for i in range(rng.choice([1, 2, 4]))]
        fl = rng.choice([_re.I, _re.I, _re.S, _re.I | _re.S, 0])
        for name, with_obj, with_args in (
                ('split', lambda: etl.split(S, 's', _re.compile('x', fl), ['l', 'r']), lambda: etl.split(S, 's', 'x', ['l', 'r'], flags=fl)),
                ('splitdown', lambda: etl.splitdown(S, 's', _re.compile('x', fl)), lambda: etl.splitdown(S, 's', 'x', flags=fl)),
                ('capture', lambda: etl.capture(S, 's', _re.compile('(a)(.)', fl), ['p', 'q'], fill=['-', '-']),
                 lambda: etl.capture(S, 's', '(a)(.)', ['p', 'q'], fill=['-', '-'], flags=fl)),
                ('search', lambda: etl.search(S, 's', _re.compile('x', fl)), lambda: etl.search(S, 's', 'x', flags=fl)),
                ('sub', lambda: etl.sub(S, 's', _re.compile('x', fl), '_'), lambda: etl.sub(S, 's', 'x', '_', flags=fl))):
            a, b = util.run_show(with_obj), util.run_show(with_args)
            ctx.case(('compiled-pattern', name, repr(S), int(fl)))
            ctx.count('op:compiled-pattern')
            if a != b:
                ctx.spec_fail('%s|compiled-pattern' % name, '%s with a compiled pattern carrying flags differs from the same pattern with flags=' % name,
                              {'table': repr(S), 'flags': int(fl), 'compiled': a, 'pattern+flags': b})


def replay(d):
    print('replay case:', d.get('case'))
    return 0
