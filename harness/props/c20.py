"""C20 — tables with a header and no data rows are handled by every operator."""
import os, itertools, operator
from collections import OrderedDict
from .. import lean, proto, gen, util

REQUIRED = ['Petl.C20.' + n for n in (
    'sort_header_only joins_header_only hashjoins_header_only setops_header_only grouping_header_only '
    'dedup_header_only select_header_only transforms_header_only reshape_header_only').split()]

E = proto.enc
ET = proto.enc_table
K = util.enc_key


def catalogue(etl):
    """(name, arity, real(tables...), line(tables...) or None, fields needed)
    every table has fields k, v (and w when 3 wide); all ops are called with keys that exist"""
    J = lambda kind, fn, extra='N - -': (fn, 2, lambda a, b, fn=fn: getattr(etl, fn)(a, b, key='k'),
                                          lambda a, b, kind=kind, extra=extra: 'join %s %s %s %s - %s %s' % (kind, extra, K('k'), K('k'), ET(a), ET(b)))
    HJ = lambda kind, fn: (fn, 2, lambda a, b, fn=fn: getattr(etl, fn)(a, b, key='k'),
                           lambda a, b, kind=kind: 'hashjoin %s N - - %s %s %s %s' % (kind, K('k'), K('k'), ET(a), ET(b)))
    SO = lambda op: (op, 2, lambda a, b, op=op: getattr(etl, op)(a, b), lambda a, b, op=op: 'setop %s 0 - %s %s' % (op, ET(a), ET(b)))
    DD = lambda op: (op, 1, lambda a, op=op: getattr(etl, op)(a, 'k'), lambda a, op=op: 'dedup %s %s - %s' % (op, K('k'), ET(a)))
    U = lambda name, real, line=None: (name, 1, real, line)
    cat = [
        U('sort', lambda a: etl.sort(a, 'k'), lambda a: 'sort %s 0 - %s' % (K('k'), ET(a))),
        U('sort(buffersize=1)', lambda a: etl.sort(a, 'k', buffersize=1), lambda a: 'sort %s 0 1 %s' % (K('k'), ET(a))),
        U('sort(key=None)', lambda a: etl.sort(a), lambda a: 'sort KN 0 - %s' % ET(a)),
        ('mergesort', 2, lambda a, b: etl.mergesort(a, b, key='k'), lambda a, b: 'mergesort %s 0 - 0 2 %s %s' % (K('k'), ET(a), ET(b))),
        U('issorted', lambda a: [(etl.issorted(a, 'k'),)], None),
        J('inner', 'join'), J('left', 'leftjoin'), J('right', 'rightjoin'), J('outer', 'outerjoin'), J('anti', 'antijoin'), J('lookup', 'lookupjoin'),
        ('crossjoin', 2, lambda a, b: etl.crossjoin(a, b), lambda a, b: 'crossjoin N 2 %s %s' % (ET(a), ET(b))),
        HJ('inner', 'hashjoin'), HJ('left', 'hashleftjoin'), HJ('right', 'hashrightjoin'), HJ('anti', 'hashantijoin'), HJ('lookup', 'hashlookupjoin'),
        SO('complement'), SO('intersection'), SO('hashcomplement'), SO('hashintersection'),
        ('diff.added', 2, lambda a, b: etl.diff(a, b)[0], lambda a, b: 'setop complement 0 - %s %s' % (ET(b), ET(a))),
        ('recordcomplement', 2, lambda a, b: etl.recordcomplement(a, b), lambda a, b: 'setop complement 0 - %s %s' % (ET(a), ET(b))),
        ('recorddiff.subtracted', 2, lambda a, b: etl.recorddiff(a, b)[1], lambda a, b: 'setop complement 0 - %s %s' % (ET(a), ET(b))),
        DD('duplicates'), DD('unique'), DD('distinct'),
        U('distinct(count)', lambda a: etl.distinct(a, 'k', count='n'), lambda a: 'dedup distinctcount %s - %s %s' % (K('k'), E('n'), ET(a))),
        U('conflicts', lambda a: etl.conflicts(a, 'k'), lambda a: 'dedup conflicts %s - N all KN %s' % (K('k'), ET(a))),
        U('isunique', lambda a: [(etl.isunique(a, 'k'),)], None),
        U('aggregate(len)', lambda a: etl.aggregate(a, 'k', len), lambda a: 'agg %s KN len %s - %s' % (K('k'), E('value'), ET(a))),
        U('aggregate(sum)', lambda a: etl.aggregate(a, 'k', sum, 'v'), lambda a: 'agg %s %s sum %s - %s' % (K('k'), K('v'), E('value'), ET(a))),
        U('aggregate(multi)', lambda a: etl.aggregate(a, 'k', OrderedDict([('n', len), ('s', ('v', sum))])),
          lambda a: 'multiagg %s 2 %s KN len %s %s sum - %s' % (K('k'), E('n'), E('s'), K(('v',)), ET(a))),
        U('aggregate(key=None,len)', lambda a: etl.aggregate(a, None, len), 'EXPECT:' + ET([('value',), (0,)])),
        U('aggregate(key=None,sum)', lambda a: etl.aggregate(a, None, sum, 'v'), 'EXPECT:' + ET([('value',), (0,)])),
        U('aggregate(key=None,list)', lambda a: etl.aggregate(a, None, list, 'v'), 'EXPECT:' + ET([('value',), ([],)])),
        U('aggregate(key=None,list of rows)', lambda a: etl.aggregate(a, None, list), 'EXPECT:' + ET([('value',), ([],)])),
        U('aggregate(key=None,callable over rows)', lambda a: etl.aggregate(a, None, lambda rows: sum(1 for _ in rows)), 'EXPECT:' + ET([('value',), (0,)])),
        U('aggregate(key=None,multi)', lambda a: etl.aggregate(a, None, OrderedDict([('n', len)])), lambda a: 'multiagg KN 1 %s KN len - %s' % (E('n'), ET(a))),
        U('rowreduce', lambda a: etl.rowreduce(a, 'k', lambda k, rows: [k, len(list(rows))], header=['k', 'n']), None),
        U('rowgroupmap', lambda a: etl.rowgroupmap(a, 'k', lambda k, rows: rows, header=['k', 'v']), None),
        U('fold', lambda a: etl.fold(a, 'k', operator.add, 'v'), lambda a: 'foldadd %s %s - %s' % (K('k'), K('v'), ET(a))),
        U('groupselectfirst', lambda a: etl.groupselectfirst(a, 'k'), lambda a: 'gsel first %s KN - %s' % (K('k'), ET(a))),
        U('groupselectlast', lambda a: etl.groupselectlast(a, 'k'), lambda a: 'gsel last %s KN - %s' % (K('k'), ET(a))),
        U('groupselectmin', lambda a: etl.groupselectmin(a, 'k', 'v'), lambda a: 'gsel min %s %s - %s' % (K('k'), K('v'), ET(a))),
        U('groupselectmax', lambda a: etl.groupselectmax(a, 'k', 'v'), lambda a: 'gsel max %s %s - %s' % (K('k'), K('v'), ET(a))),
        U('mergeduplicates', lambda a: etl.mergeduplicates(a, 'k'), lambda a: 'mergedup %s N - %s' % (K('k'), ET(a))),
        ('merge', 2, lambda a, b: etl.merge(a, b, key='k'), None),
        U('groupcountdistinctvalues', lambda a: etl.groupcountdistinctvalues(a, 'k', 'v'), None),
        U('valuecounts', lambda a: etl.valuecounts(a, 'k'), None),
        U('valuecounter', lambda a: [tuple(etl.valuecounter(a, 'k').items())], None),
        U('nrows', lambda a: [(etl.nrows(a),)], None),
        U('aggregate(key function)', lambda a: etl.aggregate(a, lambda r: r[0], len, presorted=True), 'EXPECT:TB1 R2 S107.101.121 S118.97.108.117.101'),
        U('aggregate(key function, list)', lambda a: etl.aggregate(a, lambda r: (r[0], r[1]), list, 'v', presorted=True), 'EXPECT:TB1 R2 S107.101.121 S118.97.108.117.101'),
        U('rowreduce(key function)', lambda a: etl.rowreduce(a, lambda r: r[0], lambda k, rows: [k, len(list(rows))], header=['k', 'n'], presorted=True), None),
        U('unpackdict(samplesize=1)', lambda a: etl.unpackdict(a, 'v', samplesize=1), None),
        U('unpackdict(samplesize=0)', lambda a: etl.unpackdict(a, 'v', samplesize=0), None),
        U('unpackdict(samplesize=2)', lambda a: etl.unpackdict(a, 'v', samplesize=2), None),
        U('recast(samplesize=1)', lambda a: etl.recast(etl.melt(a, 'k'), samplesize=1), None),
        U('fromdicts(dicts, sample=1)', lambda a: etl.fromdicts(etl.dicts(a), header=list(a[0]), sample=1), None),
        U('valuecount', lambda a: [tuple(etl.valuecount(a, 'k', 1))], None),
        U('lookup', lambda a: [tuple(etl.lookup(a, 'k').items())], None),
        U('lookupone', lambda a: [tuple(etl.lookupone(a, 'k').items())], None),
        U('dictlookup', lambda a: [tuple(etl.dictlookup(a, 'k').items())], None),
        U('recordlookup', lambda a: [tuple(etl.recordlookup(a, 'k').items())], None),
        U('select', lambda a: etl.select(a, 'k', lambda v: True), lambda a: 'select %s N 0 notnone %s' % (K('k'), ET(a))) if False else
        U('selectnotnone', lambda a: etl.selectnotnone(a, 'k'), lambda a: 'select %s N 0 notnone %s' % (K('k'), ET(a))),
        U('select(row)', lambda a: etl.select(a, lambda r: True), None),
        U('selecteq', lambda a: etl.selecteq(a, 'k', 1), lambda a: 'select %s N 0 eq %s %s' % (K('k'), E(1), ET(a))),
        U('selectlt', lambda a: etl.selectlt(a, 'k', 1), lambda a: 'select %s N 0 lt %s %s' % (K('k'), E(1), ET(a))),
        U('selectrangeopen', lambda a: etl.selectrangeopen(a, 'k', 1, 2), lambda a: 'select %s N 0 ro %s %s %s' % (K('k'), E(1), E(2), ET(a))),
        U('selectin', lambda a: etl.selectin(a, 'k', (1, 2)), lambda a: 'select %s N 0 in %s %s' % (K('k'), E((1, 2)), ET(a))),
        U('selectusingcontext', lambda a: etl.selectusingcontext(a, lambda p, c, n: True), None),
        U('selectusingcontext(cur)', lambda a: etl.selectusingcontext(a, lambda p, c, n: c['k'] is not None and (n is None or n['k'] != 0)), None),
        U('rowlenselect', lambda a: etl.rowlenselect(a, 2), lambda a: 'rowlen 2 0 %s' % ET(a)),
        U('biselect[0]', lambda a: etl.biselect(a, 'k', lambda v: True)[0], None),
        U('facet', lambda a: [tuple(etl.facet(a, 'k').items())], None),
        U('search', lambda a: etl.search(a, 'k', 'a'), None),
        U('searchcomplement', lambda a: etl.searchcomplement(a, 'k', 'a'), None),
        U('rowslice', lambda a: etl.rowslice(a, 1, 3), lambda a: 'slice 1 3 - %s' % ET(a)),
        U('head', lambda a: etl.head(a, 2), lambda a: 'slice - 2 - %s' % ET(a)),
        U('tail', lambda a: etl.tail(a, 2), lambda a: 'tail 2 %s' % ET(a)),
        U('skip(0)', lambda a: etl.skip(a, 0), lambda a: 'skip 0 %s' % ET(a)),
        U('skipcomments', lambda a: etl.skipcomments(a, '#'), None),
        U('cut', lambda a: etl.cut(a, 'v', 'k'), lambda a: 'xf cut %s N %s' % (K(('v', 'k')), ET(a))),
        U('cutout', lambda a: etl.cutout(a, 'k'), lambda a: 'xf cutout %s N %s' % (K(('k',)), ET(a))),
        U('movefield', lambda a: etl.movefield(a, 'k', 1), lambda a: 'xf movefield %s 1 N %s' % (E('k'), ET(a))),
        ('cat', 2, lambda a, b: etl.cat(a, b), lambda a, b: 'xf cat N - 2 %s %s' % (ET(a), ET(b))),
        ('stack', 2, lambda a, b: etl.stack(a, b), lambda a, b: 'xf stack N 1 1 2 %s %s' % (ET(a), ET(b))),
        ('annex', 2, lambda a, b: etl.annex(a, b), lambda a, b: 'xf annex N 2 %s %s' % (ET(a), ET(b))),
        U('addfield', lambda a: etl.addfield(a, 'new', 1), lambda a: 'xf addfield %s c %s - N %s' % (E('new'), E(1), ET(a))),
        U('addfield(callable)', lambda a: etl.addfield(a, 'new', lambda r: len(r)), lambda a: 'xf addfield %s len - N %s' % (E('new'), ET(a))),
        U('addfields', lambda a: etl.addfields(a, [('n1', 1), ('n2', 2, 0)]), lambda a: 'xf addfields 2 %s c %s - %s c %s 0 N %s' % (E('n1'), E(1), E('n2'), E(2), ET(a))),
        U('addrownumbers', lambda a: etl.addrownumbers(a), lambda a: 'xf addrownumbers 1 1 %s %s' % (E('row'), ET(a))),
        U('addcolumn', lambda a: etl.addcolumn(a, 'c', []), lambda a: 'xf addcolumn %s %s - N %s' % (E('c'), E(()), ET(a))),
        U('addfieldusingcontext', lambda a: etl.addfieldusingcontext(a, 'new', lambda p, c, n: 1), None),
        U('rename', lambda a: etl.rename(a, 'k', 'kk'), lambda a: 'xf rename 1 1 %s %s %s' % (util.enc_fspec('k'), E('kk'), ET(a))),
        U('setheader', lambda a: etl.setheader(a, ['x', 'y']), lambda a: 'xf setheader %s %s' % (proto.enc_row(['x', 'y']), ET(a))),
        U('extendheader', lambda a: etl.extendheader(a, ['x']), lambda a: 'xf extendheader %s %s' % (proto.enc_row(['x']), ET(a))),
        U('pushheader', lambda a: etl.pushheader(a, ['x', 'y']), lambda a: 'xf pushheader %s %s' % (proto.enc_row(['x', 'y']), ET(a))),
        U('prefixheader', lambda a: etl.prefixheader(a, 'p_'), lambda a: 'xf prefixheader %s %s' % (E('p_'), ET(a))),
        U('suffixheader', lambda a: etl.suffixheader(a, '_s'), lambda a: 'xf suffixheader %s %s' % (E('_s'), ET(a))),
        U('sortheader', lambda a: etl.sortheader(a), lambda a: 'xf sortheader 0 N %s' % ET(a)),
        U('convert', lambda a: etl.convert(a, 'k', lambda v: [v]), lambda a: 'convert r N 1 0 Value %s %s' % (E(()), ET(a))),
        U('convertall', lambda a: etl.convertall(a, lambda v: v), None),
        U('replace', lambda a: etl.replace(a, 'k', 1, 2), None),
        U('replaceall', lambda a: etl.replaceall(a, 1, 2), None),
        U('update', lambda a: etl.update(a, 'k', 3), None),
        U('convertnumbers', lambda a: etl.convertnumbers(a), None),
        U('format', lambda a: etl.format(a, 'k', '{}'), None),
        U('interpolate', lambda a: etl.interpolate(a, 'k', '%s'), None),
        U('sub', lambda a: etl.sub(a, 'k', 'a', 'b'), None),
        U('filldown', lambda a: etl.filldown(a), lambda a: 'xf filldown KN N %s' % ET(a)),
        U('fillright', lambda a: etl.fillright(a), lambda a: 'xf fillright N %s' % ET(a)),
        U('fillleft', lambda a: etl.fillleft(a), lambda a: 'xf fillleft N %s' % ET(a)),
        U('fieldmap', lambda a: etl.fieldmap(a, OrderedDict([('x', 'k'), ('y', ('v', lambda v: v))])), None),
        U('rowmap', lambda a: etl.rowmap(a, lambda r: list(r), header=['x', 'y']), None),
        U('rowmapmany', lambda a: etl.rowmapmany(a, lambda r: [r], header=['x', 'y']), None),
        U('melt', lambda a: etl.melt(a, 'k'), None),
        U('recast', lambda a: etl.recast(etl.melt(a, 'k'), key='k'), None),
        U('transpose', lambda a: etl.transpose(a), lambda a: 'rs transpose %s' % ET(a)),
        U('pivot', lambda a: etl.pivot(a, 'k', 'v', 'v', sum), None),
        U('flatten', lambda a: [tuple(etl.flatten(a))], lambda a: 'rs flatten %s' % ET(a)),
        U('unflatten', lambda a: etl.unflatten(etl.flatten(a), 2), None),
        U('unpack', lambda a: etl.unpack(a, 'v', ['a', 'b']), None),
        U('unpackdict', lambda a: etl.unpackdict(a, 'v'), None),
        U('capture', lambda a: etl.capture(a, 'k', '(.)(.)', ['a', 'b']), None),
        U('split', lambda a: etl.split(a, 'k', '-', ['a', 'b']), None),
        U('splitdown', lambda a: etl.splitdown(a, 'k', '-'), None),
        U('unjoin[0]', lambda a: etl.unjoin(a, 'v', key='k')[0], None),
        U('values', lambda a: [(v,) for v in etl.values(a, 'k')], lambda a: 'xf values %s N %s' % (K(('k',)), ET(a))),
        U('data', lambda a: etl.data(a), lambda a: 'skip 1 %s' % ET(a)),
        U('dicts', lambda a: [tuple(d.items()) for d in etl.dicts(a)], None),
        U('records', lambda a: [tuple(r) for r in etl.records(a)], lambda a: 'xf records N %s' % ET(a)),
        U('namedtuples', lambda a: [tuple(r) for r in etl.namedtuples(a)], lambda a: 'xf records N %s' % ET(a)),
        U('columns', lambda a: [tuple((k, tuple(v)) for k, v in etl.columns(a).items())], None),
        U('header', lambda a: [etl.header(a)], None),
        U('fieldnames', lambda a: [etl.fieldnames(a)], None),
        U('listoflists', lambda a: etl.listoflists(a), None),
        U('look', lambda a: [(str(etl.look(a)) != '',)], None),
        U('typecounts', lambda a: etl.typecounts(a, 'k'), None),
        U('rowlengths', lambda a: etl.rowlengths(a), None),
        U('stats', lambda a: [tuple(etl.stats(a, 'v'))[:1]], None),
        U('limits', None, None) if False else U('validate', lambda a: etl.validate(a, header=('k', 'v')), None),
        # the same operators with a non-default missing value (it must reach every padded cell also when an input has no rows)
        ] + [(fn + '(missing)', 2, (lambda a, b, fn=fn: getattr(etl, fn)(a, b, key='k', missing='NA')),
              (lambda a, b, kind=kind: 'join %s %s - - %s %s - %s %s' % (kind, E('NA'), K('k'), K('k'), ET(a), ET(b))))
             for kind, fn in (('left', 'leftjoin'), ('right', 'rightjoin'), ('outer', 'outerjoin'), ('lookup', 'lookupjoin'))
        ] + [(fn + '(missing)', 2, (lambda a, b, fn=fn: getattr(etl, fn)(a, b, key='k', missing='NA')),
              (lambda a, b, kind=kind: 'hashjoin %s %s - - %s %s %s %s' % (kind, E('NA'), K('k'), K('k'), ET(a), ET(b))))
             for kind, fn in (('left', 'hashleftjoin'), ('right', 'hashrightjoin'), ('lookup', 'hashlookupjoin'))
        ] + [
        U('addcolumn(missing)', lambda a: etl.addcolumn(a, 'c', [1, 2], missing='NA'), lambda a: 'xf addcolumn %s %s - %s %s' % (E('c'), E((1, 2)), E('NA'), ET(a))),
        U('addcolumn(missing=0,index=0)', lambda a: etl.addcolumn(a, 'c', [1], index=0, missing=0), lambda a: 'xf addcolumn %s %s 0 %s %s' % (E('c'), E((1,)), E(0), ET(a))),
        ('cat(missing)', 2, lambda a, b: etl.cat(a, b, missing='NA'), lambda a, b: 'xf cat %s - 2 %s %s' % (E('NA'), ET(a), ET(b))),
        ('annex(missing)', 2, lambda a, b: etl.annex(a, b, missing='NA'), lambda a, b: 'xf annex %s 2 %s %s' % (E('NA'), ET(a), ET(b))),
        U('cut(missing)', lambda a: etl.cut(a, 'v', 'k', missing='NA'), lambda a: 'xf cut %s %s %s' % (K(('v', 'k')), E('NA'), ET(a))),
        U('cache', lambda a: etl.wrap(a).cache(), None),
        U('progress', lambda a: etl.progress(a, 10, out=open('/dev/null', 'w')), None),
    ]
    return cat


def run(ctx):
    import petl as etl
    ctx.rule = ('an operator catalogue (every public transform, join, set operation, aggregation, accessor that does not need an '
                'optional package) x every non-empty subset of its inputs made header-only x header shapes (2 and 3 fields): '
                'the call must not raise; where a Lean model exists the output must equal the model on the same header-only inputs; '
                'otherwise header = the header produced for the same inputs with rows, and (all inputs header-only) no data rows. '
                'Non-trivial: every case (each is a distinct operator/position/shape).')
    ctx.assumptions += ['operators outside the catalogue (listed in uncovered_public_names) are not checked']
    from translators import bare_next as _bn
    try:
        _info = _bn.generate()
        ctx.bridge('translator: unguarded data-row next() calls in %d generator functions (%d sites)' % (_info['generators'], len(_info['sites'])), True)
        ctx.extra['bare_next_sites'] = [list(x) for x in _info['sites']]
    except Exception as e:   # noqa
        ctx.bridge('translator: bare next() sites extracted', False, repr(e))
    from translators import fingerprints as _fp
    try:
        _fpi = _fp.generate()
        ctx.bridge('translator: fingerprints of the petl sources this check vouches for (%d entries over all properties)' % _fpi['names'], True)
    except Exception as e:   # noqa
        ctx.bridge('translator: source fingerprints extracted', False, repr(e))
    ctx.prove(['PetlProofs.Props.C20', 'PetlProofs.Snapshot.C20'], REQUIRED + ['Petl.C20.no_unguarded_data_next', 'Petl.Snapshot.C20_sources_as_validated'])
    rng = ctx.rng
    cat = catalogue(etl)
    shapes = [['k', 'v'], ['k', 'v', 'w']]
    ROWS = {2: [[1, 2], [1, 3], ['a', 5], [None, 7]], 3: [[1, 2, 'x'], [1, 3, 'y'], ['a', 5, None], [None, 8, 'z']]}     # a None key too: the smallest key of all
    # text rows for regex ops are not needed: header-only inputs never reach the row code
    jobs = []
    for (name, arity, real, line) in cat:
        for hdr in shapes:
            full = [list(hdr)] + [list(r) for r in ROWS[len(hdr)]]
            empty = [list(hdr)]
            positions = [p for p in itertools.product([False, True], repeat=arity) if any(p)]
            for pos in positions:
                tabs = [empty if e else full for e in pos]
                jobs.append((name, arity, real, line, hdr, pos, tabs, [full] * arity))
    lines = [(j[3](*j[6]) if callable(j[3]) else None) for j in jobs]
    model = iter(lean.run_driver([l for l in lines if l is not None]))
    covered = set()
    for (name, arity, real, linef, hdr, pos, tabs, fulls), line in zip(jobs, lines):
        spec = next(model) if line is not None else None
        if isinstance(linef, str) and linef.startswith('EXPECT:'):
            # documented result for zero rows, written out
            spec = linef[len('EXPECT:'):]
        covered.add(name.split('(')[0].split('[')[0].split('.')[0])
        out = util.run_show(lambda: real(*tabs))
        ctx.case((name, tuple(hdr), pos), sample={'op': name, 'header': hdr, 'header_only_positions': pos, 'out': out} if len(ctx.samples) < 8 and ctx.evaluations % 37 == 0 else None)
        ctx.count('arity:%d' % arity)
        ctx.count('modelled' if spec is not None else 'reference-rule')
        case = {'op': name, 'header': hdr, 'header_only_positions': list(pos), 'real': out, 'spec': spec}
        if ' ERR ' in out or out.startswith('TB0 ERR'):
            ctx.spec_fail('%s|raises|pos=%s' % (name, ''.join('H' if p else 'R' for p in pos)),
                          '%s raises on a header-only input' % name, case)
            continue
        if out.startswith('UNENC') and 'not a sequence' in out:
            ctx.spec_fail('%s|not-a-row|pos=%s' % (name, ''.join('H' if p else 'R' for p in pos)),
                          '%s on a header-only input yields something that is not a row' % name, case)
            continue
        if spec is not None:
            if spec.startswith(('PARSE', 'BADOP', 'ERR unsupported')):
                ctx.corr_fail(name, 'driver: ' + spec, case)
                continue
            ctx.exact(out == spec, case)
            if out != spec:
                ctx.spec_fail('%s|wrong|pos=%s' % (name, ''.join('H' if p else 'R' for p in pos)),
                              '%s on header-only input is not what its definition gives for zero rows' % name, case)
        elif all(pos) and not out.startswith('UNENC'):
            ref = util.run_show(lambda: real(*fulls))
            if ref.startswith('TB') and out.startswith('TB') and ' ERR ' not in ref:
                rt, ot = proto.parse_tables(ref)[0], proto.parse_tables(out)[0]
                tablelike = name.split('(')[0] not in ('recast', 'unpackdict') and name not in ('issorted', 'isunique', 'nrows', 'valuecount', 'lookup', 'lookupone', 'dictlookup', 'recordlookup', 'facet',
                                         'valuecounter', 'flatten', 'columns', 'header', 'fieldnames', 'look', 'stats', 'aggregate(key=None,len)',
                                         'values', 'dicts', 'records', 'namedtuples', 'listoflists', 'typecounts', 'rowlengths', 'validate',
                                         'transpose', 'recast', 'pivot', 'unpackdict', 'valuecounts')
                if tablelike and (rt[:1] != ot[:1] or len(ot) != 1):
                    ctx.spec_fail('%s|wrong|all-header-only' % name,
                                  '%s on a header-only table: expected its usual header and no data rows' % name,
                                  dict(case, with_rows=ref))
    # ---- the header shape with no field at all (etl.empty(), fromdicts([]), fromcolumns([]), a blank csv): every operator that
    # needs no named field must take it
    Z = lambda: [()]
    devnull = open(os.devnull, 'w')
    zero_ops = [
        ('sort', 1, lambda a: etl.sort(a)), ('sort(reverse)', 1, lambda a: etl.sort(a, reverse=True)), ('sort(buffersize=1)', 1, lambda a: etl.sort(a, buffersize=1)),
        ('distinct', 1, lambda a: etl.distinct(a)), ('unique', 1, lambda a: etl.unique(a)), ('duplicates', 1, lambda a: etl.duplicates(a)),
        ('conflicts?', 0, None), ('complement', 2, lambda a, b: etl.complement(a, b)), ('intersection', 2, lambda a, b: etl.intersection(a, b)),
        ('diff[0]', 2, lambda a, b: etl.diff(a, b)[0]), ('diff[1]', 2, lambda a, b: etl.diff(a, b)[1]),
        ('recordcomplement', 2, lambda a, b: etl.recordcomplement(a, b)), ('hashcomplement', 2, lambda a, b: etl.hashcomplement(a, b)),
        ('hashintersection', 2, lambda a, b: etl.hashintersection(a, b)), ('mergesort', 2, lambda a, b: etl.mergesort(a, b)),
        ('cat', 2, lambda a, b: etl.cat(a, b)), ('stack', 2, lambda a, b: etl.stack(a, b)), ('annex', 2, lambda a, b: etl.annex(a, b)),
        ('crossjoin', 2, lambda a, b: etl.crossjoin(a, b)),
        ('select', 1, lambda a: etl.select(a, lambda r: True)), ('select(expression)', 1, lambda a: etl.select(a, 'True')),
        ('select(complement)', 1, lambda a: etl.select(a, lambda r: True, complement=True)),
        ('rowlenselect', 1, lambda a: etl.rowlenselect(a, 0)), ('selectusingcontext', 1, lambda a: etl.selectusingcontext(a, lambda p, c, n: True)),
        ('biselect[0]', 1, lambda a: etl.biselect(a, lambda r: True)[0]), ('biselect[1]', 1, lambda a: etl.biselect(a, lambda r: True)[1]),
        ('head', 1, lambda a: etl.head(a)), ('tail', 1, lambda a: etl.tail(a)), ('rowslice', 1, lambda a: etl.rowslice(a, 1)), ('skip', 1, lambda a: etl.skip(a, 0)),
        ('addrownumbers', 1, lambda a: etl.addrownumbers(a)), ('addfield', 1, lambda a: etl.addfield(a, 'x', 1)), ('addcolumn', 1, lambda a: etl.addcolumn(a, 'x', [])),
        ('addfieldusingcontext', 1, lambda a: etl.addfieldusingcontext(a, 'x', lambda p, c, n: 1)),
        ('filldown', 1, lambda a: etl.filldown(a)), ('fillright', 1, lambda a: etl.fillright(a)), ('fillleft', 1, lambda a: etl.fillleft(a)),
        ('convertall', 1, lambda a: etl.convertall(a, str)), ('replaceall', 1, lambda a: etl.replaceall(a, 1, 2)),
        ('rowmap', 1, lambda a: etl.rowmap(a, lambda r: r, header=[])), ('rowmapmany', 1, lambda a: etl.rowmapmany(a, lambda r: [r], header=[])),
        ('fieldmap', 1, lambda a: etl.fieldmap(a, {})), ('cut()', 1, lambda a: etl.cut(a)), ('cutout()', 1, lambda a: etl.cutout(a)),
        ('prefixheader', 1, lambda a: etl.prefixheader(a, 'p')), ('suffixheader', 1, lambda a: etl.suffixheader(a, 's')), ('sortheader', 1, lambda a: etl.sortheader(a)),
        ('setheader', 1, lambda a: etl.setheader(a, [])), ('extendheader', 1, lambda a: etl.extendheader(a, ['x'])),
        ('progress', 1, lambda a: etl.progress(a, out=devnull)), ('wrap', 1, lambda a: etl.wrap(a)), ('cache', 1, lambda a: etl.wrap(a).cache()),
        ('aggregate(None, len)', 1, lambda a: etl.aggregate(a, None, len)), ('aggregate(None, list)', 1, lambda a: etl.aggregate(a, None, list)),
        ('nrows', 1, lambda a: [[etl.nrows(a)]]), ('issorted', 1, lambda a: [[etl.issorted(a)]]), ('isunique?', 0, None),
        ('teecsv', 1, lambda a: etl.teecsv(a, etl.MemorySource())), ('teetsv', 1, lambda a: etl.teetsv(a, etl.MemorySource())),
        ('teepickle', 1, lambda a: etl.teepickle(a, etl.MemorySource())),
    ]
    SINGLE_ROW = {'aggregate(None, len)', 'aggregate(None, list)', 'nrows', 'issorted'}
    for name, arity, f in zero_ops:
        if f is None:
            continue
        out = util.run_show(lambda: f(*[Z() for _ in range(arity)]))
        ctx.case((name, 'zero-field-header'))
        ctx.count('zero-field-header')
        case = {'op': name, 'header': '()', 'real': out}
        if ' ERR ' in out or out.startswith('TB0 ERR'):
            ctx.spec_fail('%s|raises|zero-field-header' % name, '%s raises on a header-only table whose header has no fields' % name, case)
        elif out.startswith('TB') and name not in SINGLE_ROW:
            t = proto.parse_tables(out)[0]
            if len(t) != 1:
                ctx.spec_fail('%s|wrong|zero-field-header' % name, '%s on a header-only table without fields: expected a header and no data rows' % name, case)
    devnull.close()
    pub = set()
    for n in dir(etl):
        f = getattr(etl, n)
        m = getattr(f, '__module__', '') or ''
        if callable(f) and not n.startswith('_') and (m.startswith('petl.transform') or m in ('petl.util.base', 'petl.util.counting', 'petl.util.lookups', 'petl.util.materialise')):
            pub.add(n)
    ctx.extra['uncovered_public_names'] = sorted(pub - covered)
    ctx.exhaustive = True


def replay(d):
    print('replay case:', d.get('case'))
    return 0
