"""C17 — database loads round-trip and are all-or-nothing when the source fails."""
import gc, os, sqlite3, tempfile, shutil, itertools
from .. import lean, proto, gen, util

REQUIRED = ['Petl.C17.' + n for n in (
    'todb_roundtrip appenddb_extends load_all_or_nothing no_commit_nothing_visible filename_handle_closed').split()]


class Boom(Exception):
    pass


class BoomBase(BaseException):
    """a failure that is not an Exception (what Ctrl-C or sys.exit() inside the source pipeline looks like)"""


class BoomType(Boom, TypeError):
    """a source failure that is also a TypeError (loaders must not mistake it for a driver complaint)"""


class Source(object):
    def __init__(self, rows, fail_at, exc=None):
        self.rows, self.fail_at = rows, fail_at
        self.exc = exc or Boom

    def __iter__(self):
        if self.fail_at == 0:
            raise self.exc()
        yield ('a', 'b')
        for i, r in enumerate(self.rows):
            if self.fail_at == i + 1:
                raise self.exc()
            yield r
        if self.fail_at == len(self.rows) + 1:
            raise self.exc()


class RecCursor(object):
    """recording DB-API cursor proxy (passes petl's duck typing for cursors)"""
    def __init__(self, conn):
        self.connection = conn
        self._c = conn._c.cursor()

    def execute(self, sql, *a):
        self.connection.log.append('DELETE' if sql.strip().upper().startswith('DELETE') else 'EXEC')
        return self._c.execute(sql, *a)

    def executemany(self, sql, it):
        log = self.connection.log

        def counted():
            for row in it:
                log.append('INSERT')
                yield row
        return self._c.executemany(sql, counted())

    def fetchone(self):
        return self._c.fetchone()

    def fetchmany(self, *a):
        return self._c.fetchmany(*a)

    def fetchall(self):
        return self._c.fetchall()

    def close(self):
        return self._c.close()


class RecConn(object):
    def __init__(self, path):
        self._c = sqlite3.connect(path)
        self.log = []

    def cursor(self):
        return RecCursor(self)

    def commit(self):
        self.log.append('COMMIT')
        return self._c.commit()

    def rollback(self):
        self.log.append('ROLLBACK')
        return self._c.rollback()

    def close(self):
        self.log.append('CLOSE')
        return self._c.close()


def fresh_contents(path):
    c = sqlite3.connect(path)
    try:
        return [tuple(r) for r in c.execute('SELECT a, b FROM t ORDER BY rowid')]
    finally:
        c.close()


def run(ctx):
    import petl as etl
    ctx.rule = ('sqlite3 databases with a table t(a, b) holding 0-2 prior rows; todb and appenddb of 0-3 rows from a source that '
                'fails at EVERY index (header, each data row, exhaustion) or not at all x handle kind (file name, DB-API connection, '
                'cursor, cursor factory) x commit flag: the table contents seen through a FRESH connection after the call returned '
                'or raised vs the model, and for proxied handles the recorded sequence of DELETE / INSERT / COMMIT / CLOSE calls '
                'vs the model. Exhaustive over these parameters. Non-trivial: a failing source or prior contents.')
    ctx.assumptions += ['sqlite3 transaction semantics (implicit transaction for DML, rollback on close); create/drop (DDL) are outside the quantifier']
    from translators import fingerprints as _fp
    try:
        _fpi = _fp.generate()
        ctx.bridge('translator: fingerprints of the petl functions the hand-written models mirror (%d bodies)' % _fpi['names'], True)
    except Exception as e:   # noqa
        ctx.bridge('translator: source fingerprints extracted', False, repr(e))
    ctx.prove(['PetlProofs.Props.C17', 'PetlProofs.Snapshot.C17'], REQUIRED + ['Petl.Snapshot.C17_sources_as_validated'])
    tmpd = tempfile.mkdtemp(prefix='petl_c17_')
    lines, metas = [], []
    maxrows = 4 if ctx.thorough() else 3
    for nprior in (0, 1, 2):
        for nrows in range(0, maxrows + 1):
            prior = [(100 + i, 'p%d' % i) for i in range(nprior)]
            rows = [(i, 'r%d' % i) for i in range(nrows)]
            for fail in [None] + list(range(0, nrows + 2)):
                for trunc in (True, False):
                    for commit in (True, False):
                        for handle in ('filename', 'connection', 'cursor', 'mkcurs'):
                            lines.append('db %s %s %s %s %s %s' % (proto.enc_bool(trunc), proto.enc_bool(commit), proto.enc_bool(handle == 'filename'),
                                                                  proto.enc_opt(fail), proto.enc_table(prior), proto.enc_table(rows)))
                            metas.append((prior, rows, fail, trunc, commit, handle))
    # a few long loads: failures far into the source (beyond any batching a loader might do)
    big = [(i, 'r%d' % i) for i in range(2100)]
    for fail in (2051, 1001, 2101, None):
        for trunc in (True, False):
            for handle in ('connection', 'filename', 'mkcurs', 'cursor'):
                prior = [(100, 'p0')]
                lines.append('db %s 1 %s %s %s %s' % (proto.enc_bool(trunc), proto.enc_bool(handle == 'filename'),
                                                      proto.enc_opt(fail), proto.enc_table(prior), proto.enc_table(big)))
                metas.append((prior, big, fail, trunc, True, handle))
    model = lean.run_driver(lines)
    try:
        for n, ((prior, rows, fail, trunc, commit, handle), spec) in enumerate(zip(metas, model)):
            path = os.path.join(tmpd, 'db%d.sqlite' % (n % 50))
            if os.path.exists(path):
                os.unlink(path)
            c0 = sqlite3.connect(path)
            c0.execute('CREATE TABLE t (a, b)')
            c0.executemany('INSERT INTO t VALUES (?, ?)', prior)
            c0.commit()
            c0.close()
            # the fourth kind: what a source reading another, busy database raises
            src = Source(rows, fail, [Boom, BoomType, BoomBase, (lambda: sqlite3.OperationalError('database is locked'))][n % 4])
            fn = etl.todb if trunc else etl.appenddb
            conn = None
            raised = None
            try:
                if handle == 'filename':
                    fn(src, path, 't', commit=commit)
                else:
                    conn = RecConn(path)
                    dbo = conn if handle == 'connection' else (conn.cursor() if handle == 'cursor' else (lambda conn=conn: conn.cursor()))
                    fn(src, dbo, 't', commit=commit)
            except (Boom, BoomBase):
                raised = 'Boom'
            except sqlite3.OperationalError as e:
                raised = 'Boom' if (str(e) == 'database is locked' and fail is not None and n % 4 == 3) else type(e).__name__
            except Exception as e:   # noqa
                raised = type(e).__name__
            seen = fresh_contents(path)
            oplog = ' '.join(x for x in (conn.log if conn is not None else []) if x != 'EXEC')
            if conn is not None:
                conn._c.close()
            sp_ops, sp_rest = spec.split(' # ')
            sp_committed = sp_rest.split(' pending=')[0][len('committed='):]
            real_committed = proto.enc_table(seen)
            nt = fail is not None or bool(prior)
            ctx.case((n,) if nt else None,
                     sample={'op': fn.__name__, 'handle': handle, 'commit': commit, 'prior': prior, 'rows': rows, 'fail_at': fail,
                             'raised': raised, 'calls': oplog, 'fresh_connection_sees': seen} if len(ctx.samples) < 6 and nt and n % 211 == 7 else None)
            ctx.count('handle:' + handle)
            ctx.count('fail:%s' % ('none' if fail is None else ('header' if fail == 0 else ('exhaustion' if fail == len(rows) + 1 else 'row'))))
            case = {'op': fn.__name__, 'handle': handle, 'commit': commit, 'prior': repr(prior), 'rows': repr(rows)[:200], 'nrows': len(rows), 'fail_at': fail,
                    'raised': raised, 'calls': oplog[:200], 'fresh_connection_sees': repr(seen)[:200], 'model': spec[:300]}
            want_raise = fail is not None
            if (raised == 'Boom') != want_raise or (raised not in (None, 'Boom')):
                ctx.spec_fail('%s|%s|unexpected-exception' % (fn.__name__, handle), 'the load raised %r' % raised, case)
                continue
            ctx.exact(real_committed == sp_committed and (handle == 'filename' or oplog == sp_ops), case)
            if real_committed != sp_committed:
                kind = 'partial-or-emptied' if fail is not None else ('not-loaded' if commit else 'visible-without-commit')
                ctx.spec_fail('%s|%s|%s' % (fn.__name__, handle, kind),
                              'after the call a fresh connection does not see what the property prescribes', case)
            elif handle != 'filename' and oplog != sp_ops:
                ctx.corr_fail(fn.__name__, 'DB-API call sequence differs from the model while the committed state is right', case)
        # ---- the source pipeline itself reads from the connection that is being loaded (staging table -> target):
        # a failing step must still leave the target as it was
        for nrows in (2, 4):
            for fail in [None] + list(range(1, nrows + 1)):
                for trunc in (True, False):
                    for commit in (True, False):
                        for handle in ('connection', 'cursor', 'mkcurs'):
                            path = os.path.join(tmpd, 'stage.sqlite')
                            if os.path.exists(path):
                                os.unlink(path)
                            prior = [(100, 'p0')]
                            rows = [(i, 'r%d' % i) for i in range(nrows)]
                            c0 = sqlite3.connect(path)
                            c0.execute('CREATE TABLE t (a, b)')
                            c0.execute('CREATE TABLE s (a, b)')
                            c0.executemany('INSERT INTO t VALUES (?, ?)', prior)
                            c0.executemany('INSERT INTO s VALUES (?, ?)', rows)
                            c0.commit()
                            c0.close()
                            conn = sqlite3.connect(path)

                            def step(v, fail=fail):
                                if fail is not None and v == fail - 1:
                                    raise Boom()
                                return v
                            src = etl.convert(etl.fromdb(conn, 'SELECT a, b FROM s ORDER BY rowid'), 'a', step, failonerror=True)
                            dbo = conn if handle == 'connection' else (conn.cursor() if handle == 'cursor' else (lambda conn=conn: conn.cursor()))
                            fn = etl.todb if trunc else etl.appenddb
                            raised = None
                            try:
                                fn(src, dbo, 't', commit=commit)
                            except Boom:
                                raised = 'Boom'
                            except Exception as e:   # noqa
                                raised = type(e).__name__
                            del src
                            gc.collect()
                            seen = fresh_contents(path)
                            conn.close()
                            want = prior if (fail is not None or not commit) else ((rows if trunc else prior + rows))
                            ctx.case(('staging', nrows, fail, trunc, commit, handle))
                            ctx.count('source-reads-same-connection')
                            case = {'op': fn.__name__, 'handle': handle, 'commit': commit, 'prior': repr(prior), 'staging_rows': repr(rows),
                                    'fail_at_row': fail, 'raised': raised, 'fresh_connection_sees': repr(seen), 'expected': repr(want)}
                            if (raised == 'Boom') != (fail is not None) or raised not in (None, 'Boom'):
                                ctx.spec_fail('%s|%s|staging|unexpected-exception' % (fn.__name__, handle), 'the load raised %r' % raised, case)
                            elif seen != want:
                                ctx.spec_fail('%s|%s|staging|%s' % (fn.__name__, handle, 'partial-or-emptied' if fail is not None else 'wrong-state'),
                                              'source read through fromdb on the same connection: a fresh connection does not see what the property prescribes', case)
        # ---- a connection in autocommit mode (isolation_level=None): a DB-API connection like any other as far as petl can tell
        for ci in range(6):
            pa_ = os.path.join(tmpd, 'autocommit_%d.sqlite' % ci)
            if os.path.exists(pa_):
                os.unlink(pa_)
            c0 = sqlite3.connect(pa_)
            c0.execute('CREATE TABLE t (a, b)')
            c0.executemany('INSERT INTO t VALUES (?, ?)', [('p', 1), ('q', 2)])
            c0.commit()
            c0.close()
            conn = sqlite3.connect(pa_, isolation_level=None)
            fail_at = [1, 2, 3][ci % 3]
            trunc = ci < 3
            def failing(fail_at=fail_at):
                yield ('a', 'b')
                for i in range(3):
                    if i + 1 == fail_at:
                        raise Boom()
                    yield ('r%d' % i, i)
                if fail_at == 4:
                    raise Boom()
            try:
                (etl.todb if trunc else etl.appenddb)(failing(), conn, 't')
                raised = None
            except Boom:
                raised = 'Boom'
            except Exception as e:   # noqa
                raised = type(e).__name__
            conn.close()
            seen = fresh_contents(pa_)
            ctx.case(('autocommit', trunc, fail_at))
            ctx.count('handle:autocommit-connection')
            if raised != 'Boom' or seen != [('p', 1), ('q', 2)]:
                ctx.spec_fail('todb|autocommit-connection|partial-or-emptied',
                              'a load through a connection in autocommit mode whose source fails leaves an emptied or partly loaded table',
                              {'op': 'todb' if trunc else 'appenddb', 'fail_at': fail_at, 'raised': raised, 'fresh_connection_sees': repr(seen)})
        # ---- a load through a file name that has written more than sqlite's page cache (about 2 MB) when the source fails:
        # whatever was spilled into the file must be gone again once the call has returned
        for ci, (trunc, frac) in enumerate([(True, 0.75), (False, 0.75), (True, 1.0)]):
            pb_ = os.path.join(tmpd, 'big_%d.sqlite' % ci)
            if os.path.exists(pb_):
                os.unlink(pb_)
            c0 = sqlite3.connect(pb_)
            c0.execute('CREATE TABLE t (a, b)')
            bigprior = [('old%06d' % i + 'y' * 180, i) for i in range(3000)]      # pages of the old contents are what a load without a journal overwrites
            c0.executemany('INSERT INTO t VALUES (?, ?)', bigprior)
            c0.commit()
            c0.close()
            nbig = 24000
            stop = int(nbig * frac)

            def bigfailing(stop=stop, nbig=nbig):
                yield ('a', 'b')
                for i in range(nbig):
                    if i == stop:
                        raise Boom()
                    yield ('new%06d' % i + 'x' * 240, i)
                raise Boom()
            try:
                (etl.todb if trunc else etl.appenddb)(bigfailing(), pb_, 't')
                raised = None
            except Boom:
                raised = 'Boom'
            except Exception as e:   # noqa
                raised = type(e).__name__
            seen = fresh_contents(pb_)
            ctx.case(('filename-beyond-page-cache', trunc, frac))
            ctx.count('handle:filename-beyond-page-cache')
            if raised != 'Boom' or seen != bigprior:
                ctx.spec_fail('%s|filename|beyond-page-cache|partial-or-emptied' % ('todb' if trunc else 'appenddb'),
                              'a load through a file name whose source fails after several megabytes were written leaves an emptied or partly loaded table',
                              {'op': 'todb' if trunc else 'appenddb', 'rows_before_failure': stop, 'bytes_per_row': 250, 'raised': raised,
                               'fresh_connection_sees': '%d rows, first %r' % (len(seen), seen[:1])})
        # ---- schema=: the table named is the one replaced / extended, also when another schema of the connection has a table of
        # the same name that sqlite would resolve first (a TEMP table, main before an attached database)
        for ci in range(24 if ctx.thorough() else 8):
            pm = os.path.join(tmpd, 'schema_main_%d.sqlite' % ci)
            pa = os.path.join(tmpd, 'schema_aux_%d.sqlite' % ci)
            for pth in (pm, pa):
                if os.path.exists(pth):
                    os.unlink(pth)
                c0 = sqlite3.connect(pth)
                c0.execute('CREATE TABLE t (a, b)')
                c0.executemany('INSERT INTO t VALUES (?, ?)', [('p', 1), ('q', 2)])
                c0.commit()
                c0.close()
            conn = sqlite3.connect(pm)
            conn.execute("ATTACH DATABASE '%s' AS aux1" % pa)
            conn.execute('CREATE TEMP TABLE t (a, b)')
            conn.execute("INSERT INTO temp.t VALUES ('tmp', 0)")
            conn.commit()
            schema = ['main', 'aux1', 'temp', None][ci % 4]
            trunc = (ci // 4) % 2 == 0
            rows = [('a', 'b')] + [('r%d' % i, i) for i in range(ctx.rng.choice([0, 1, 3]))]
            before = {sc: conn.execute('SELECT * FROM %s.t' % sc).fetchall() for sc in ('main', 'aux1', 'temp')}
            kind = ['connection', 'cursor', 'mkcurs'][ci % 3]
            dbo = conn if kind == 'connection' else (conn.cursor() if kind == 'cursor' else (lambda conn=conn: conn.cursor()))
            try:
                (etl.todb if trunc else etl.appenddb)(rows, dbo, 't', **({} if schema is None else {'schema': schema}))
                err = None
            except Exception as e:   # noqa
                err = type(e).__name__
            after = {sc: conn.execute('SELECT * FROM %s.t' % sc).fetchall() for sc in ('main', 'aux1', 'temp')}
            conn.close()
            target = schema or 'temp'        # unqualified: sqlite resolves the TEMP table first
            want = dict(before)
            want[target] = ([] if trunc else before[target]) + [tuple(r) for r in rows[1:]]
            ctx.case(('schema', schema, trunc, kind, len(rows)))
            ctx.count('schema-qualified')
            if err is not None or after != want:
                ctx.spec_fail('%s|schema|wrong-table' % ('todb' if trunc else 'appenddb'),
                              'with schema=%r the load did not replace / extend exactly the table named' % schema,
                              {'op': 'todb' if trunc else 'appenddb', 'schema': schema, 'handle': kind, 'rows': repr(rows), 'error': err,
                               'before': repr(before), 'after': repr(after), 'want': repr(want)})
    finally:
        shutil.rmtree(tmpd, ignore_errors=True)
    ctx.exhaustive = True


def replay(d):
    print('replay case:', d.get('case'))
    return 0
