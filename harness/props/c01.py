"""C01 — table views are re-iterable and their iterators are mutually independent."""
import os, itertools, gc
from .. import lean, proto, gen, util
from . import c20

REQUIRED = ['Petl.C01.' + n for n in (
    'independent_of_cert pureView_independent cacheView_independent cacheView_cache_is_prefix dictsGen_independent '
    'sortView_independent cacheView_unguarded_duplicates sortView_lazy_cache_crashes').split()]


def run_schedule(mkview, sched):
    """returns the per-operation trace on the real code"""
    view = mkview()
    its = []
    trace = []
    for op in sched:
        if op == 'n':
            try:
                its.append(iter(view))
                trace.append('.')
            except Exception as e:   # noqa
                its.append(None)
                trace.append('CRASH:' + type(e).__name__)
        elif op == 'L':
            # len(view): a complete pass of its own, which is also what list(view), tuple(view) and bool(view) start with
            try:
                trace.append('len=%d' % len(view))
            except Exception as e:   # noqa
                trace.append('CRASH:' + type(e).__name__)
        elif op[0] == 'd':
            # abandon: the iterator is released (its generator is closed)
            i = int(op[1:])
            if i < len(its) and its[i] is not None:
                it = its[i]
                its[i] = None
                try:
                    if hasattr(it, 'close'):
                        it.close()
                except Exception as e:   # noqa
                    trace.append('CRASH:' + type(e).__name__)
                    continue
                del it
            trace.append('.')
        else:
            i = int(op[1:])
            if i >= len(its) or its[i] is None:
                trace.append('BAD')
                continue
            try:
                trace.append(proto.enc_row(next(its[i])))
            except StopIteration:
                trace.append('STOP')
            except Exception as e:   # noqa
                trace.append('CRASH:' + type(e).__name__)
    return trace, view


def spec_trace(solo, sched):
    """what independence prescribes: every iterator is a private cursor over the solo pass"""
    pos = []
    out = []
    for op in sched:
        if op == 'n':
            pos.append(0)
            out.append('.')
        elif op == 'L':
            out.append('len=%d' % len(solo))
        elif op[0] == 'd':
            i = int(op[1:])
            if i < len(pos):
                pos[i] = None
            out.append('.')
        else:
            i = int(op[1:])
            if i >= len(pos) or pos[i] is None:
                out.append('BAD')
            elif pos[i] < len(solo):
                out.append(solo[pos[i]])
                pos[i] += 1
            else:
                out.append('STOP')
    return out


def schedules(rng, nrows, thorough, how_many=None):
    """two iterators created up front, all interleavings up to a bound; plus late-created and 3-iterator ones;
    every schedule ends with a fresh pass"""
    full = nrows + 2   # header + rows + the StopIteration
    scheds = []
    L = min(2 * full, 9 if thorough else 7)
    for n in range(0, L + 1):
        for seq in itertools.product(['x0', 'x1'], repeat=n):
            if seq.count('x0') <= full and seq.count('x1') <= full:
                scheds.append(['n', 'n'] + list(seq))
    extra = []
    for _ in range(400 if thorough else 60):
        k = rng.choice([2, 3])
        ops, created = [], 0
        for _ in range(rng.randrange(2, 4 * full)):
            if created < k and (created == 0 or rng.random() < 0.25):
                ops.append('n'); created += 1
            else:
                ops.append('x%d' % rng.randrange(created))
        extra.append(ops)
    scheds += extra
    # len(view) (what list(view) and bool(view) start with) while iterators are at various positions
    for j in range(0, full + 1):
        for k in range(0, min(j, 3) + 1):
            scheds.append(['n'] + ['x0'] * j + ['d0', 'n'] + ['x1'] * k + ['L'] + ['x1'] * full)
            scheds.append(['n', 'n'] + ['x0'] * j + ['x1'] * k + ['L'] + ['x1'] * full + ['x0'] * full)
    # an iterator released (closed) after j steps, then a later iterator advanced
    for j in range(0, full + 1):
        scheds.append(['n'] + ['x0'] * j + ['d0'])
        scheds.append(['n', 'n'] + ['x0'] * j + ['d0'] + ['x1'] * full)
    # an iterator created (and possibly started) early, another exhausted, a third created afterwards
    for j in range(0, full + 1):
        for n in range(0, 4):
            for seq in itertools.product(['x1', 'x2'], repeat=n):
                scheds.append(['n', 'n'] + ['x0'] * j + ['n'] + list(seq))
    if how_many is not None and len(scheds) > how_many:
        scheds = rng.sample(scheds, how_many)
    out = []
    for s in scheds:
        j = s.count('n')
        out.append(s + ['n'] + ['x%d' % j] * full)
    return out


def run(ctx):
    import petl as etl
    import tempfile, shutil
    ctx.rule = ('view kinds: cache(n) for n None/1/2, sort with memory and file cache and cache off, hash joins with cached '
                'lookup, fromdicts on a generator, randomtable, dummytable (exhaustively: all interleavings of next() on two '
                'iterators created up front up to 7 steps (thorough 9), plus random schedules with 2-3 iterators created at '
                'arbitrary points, each followed by a fresh full pass; source tables of 0-2 rows (thorough 3)), and every view of '
                'the C20 operator catalogue under sampled schedules. Each per-next result is compared with a private cursor over '
                'a solo pass of an identical fresh view. Non-trivial: schedules in which both iterators advance.')
    ctx.assumptions += ['CPython generator semantics; threads are out of scope (interleaved next() calls only)']
    from translators import fingerprints as _fp
    try:
        _fpi = _fp.generate()
        ctx.bridge('translator: fingerprints of the petl functions the hand-written models mirror (%d bodies)' % _fpi['names'], True)
    except Exception as e:   # noqa
        ctx.bridge('translator: source fingerprints extracted', False, repr(e))
    ctx.prove(['PetlProofs.Props.C01', 'PetlProofs.Snapshot.C01'], REQUIRED + ['Petl.Snapshot.C01_sources_as_validated'])
    rng = ctx.rng
    tmpd = tempfile.mkdtemp(prefix='petl_c01_')
    maxr = 3 if ctx.thorough() else 2
    configs = []    # (name, mkview, machine-line-prefix or None)
    for r in range(0, maxr + 1):
        T = [['k', 'v']] + [[(r - i) % 3, 'r%d' % i] for i in range(r)]
        for n in (None, 1, 2):
            configs.append(('cache(n=%s)' % n, r, (lambda T=T, n=n: etl.wrap(T).cache(n)), ('cache', n, T)))
        for bs in (None, 2):
            for c in (True, False):
                configs.append(('sort(buffersize=%s,cache=%s)' % (bs, c), r, (lambda T=T, bs=bs, c=c: etl.sort(T, 'k', buffersize=bs, cache=c, tempdir=tmpd)), None))
        R = [['k', 'w'], [0, 'x'], [1, 'y'], [0, 'z']]
        for c in (True, False):
            configs.append(('hashjoin(cache=%s)' % c, r, (lambda T=T, c=c: etl.hashjoin(T, R, key='k', cache=c)), None))
            configs.append(('hashleftjoin(cache=%s)' % c, r, (lambda T=T, c=c: etl.hashleftjoin(T, R, key='k', cache=c)), None))
            configs.append(('hashrightjoin(cache=%s)' % c, r, (lambda T=T, c=c: etl.hashrightjoin(R, T, key='k', cache=c)), None))
        configs.append(('fromdicts(generator)', r, (lambda T=T: etl.fromdicts((dict(zip(T[0], row)) for row in T[1:]), header=T[0])), None))
        configs.append(('fromdicts(generator,sample)', r, (lambda T=T: etl.fromdicts((dict(zip(T[0], row)) for row in T[1:]), sample=1)), None))
        # dicts without keys (a table without fields), and a first dict without keys followed by others with keys under sample=1
        configs.append(('fromdicts(generator, no fields)', r, (lambda r=r: etl.fromdicts(({} for _ in range(r)))), None))
        configs.append(('fromdicts(generator, first dict empty)', r, (lambda r=r: etl.fromdicts((({} if i == 0 else {'a': i}) for i in range(r)), sample=1)), None))
        # one-shot iterators that are not generators (iter(list), map objects): a table made from one is re-iterable too
        configs.append(('fromdicts(iterator)', r, (lambda T=T: etl.fromdicts(iter([dict(zip(T[0], row)) for row in T[1:]]), header=T[0])), None))
        configs.append(('fromdicts(map object)', r, (lambda T=T: etl.fromdicts(map(lambda row: dict(zip(T[0], row)), T[1:]), header=T[0])), None))
        configs.append(('randomtable', r, (lambda r=r: etl.randomtable(2, r, seed=42)), None))
        configs.append(('dummytable', r, (lambda r=r: etl.dummytable(r, seed=42)), None))
        # field functions of dummytable that draw from the module-level generator in ways petl cannot look into
        import random as _random, functools as _functools, sqlite3 as _sqlite3
        def _draw():
            return _random.randint(0, 10 ** 6)
        configs.append(('dummytable(opaque fields)', r, (lambda r=r: etl.dummytable(r, fields=[('a', lambda: _random.randint(0, 10 ** 6)), ('b', _draw),
                                                                                              ('c', _functools.partial(_draw))], seed=42)), None))
        configs.append(('dummytable(mixed fields)', r, (lambda r=r: etl.dummytable(r, fields=[('a', _functools.partial(_random.randint, 0, 99)), ('b', _draw)], seed=7)), None))
        # database extracts: every iterator has its own cursor
        dbp = os.path.join(tmpd, 'c01_%d.sqlite' % r)
        if not os.path.exists(dbp):
            _c = _sqlite3.connect(dbp)
            _c.execute('CREATE TABLE t (k, v)')
            _c.executemany('INSERT INTO t VALUES (?, ?)', [tuple(row) for row in T[1:]])
            _c.commit()
            _c.close()
        _conn = _sqlite3.connect(dbp)
        configs.append(('fromdb(filename)', r, (lambda dbp=dbp: etl.fromdb(dbp, 'SELECT * FROM t ORDER BY rowid')), None))
        configs.append(('fromdb(connection)', r, (lambda _conn=_conn: etl.fromdb(_conn, 'SELECT * FROM t ORDER BY rowid')), None))
        configs.append(('fromdb(cursor factory)', r, (lambda _conn=_conn: etl.fromdb(lambda: _conn.cursor(), 'SELECT * FROM t ORDER BY rowid')), None))
        configs.append(('join(cache)', r, (lambda T=T: etl.join(T, R, key='k', buffersize=2, tempdir=tmpd)), None))
        configs.append(('complement', r, (lambda T=T: etl.complement(T, [['k', 'v'], [0, 'r0']], buffersize=1, tempdir=tmpd)), None))
        configs.append(('distinct', r, (lambda T=T: etl.distinct(T, 'k')), None))
        configs.append(('aggregate', r, (lambda T=T: etl.aggregate(T, 'k', len)), None))
    # extractors over one shared source object: every pass / iterator must get its own file position
    import pickle as _pickle
    for r in range(0, maxr + 1):
        T = [['k', 'v']] + [[str((r - i) % 3), 'r%d' % i] for i in range(r)]
        csvb = ''.join(','.join(row) + '\r\n' for row in T).encode()
        pkb = b''.join(_pickle.dumps(tuple(row), -1) for row in T)
        msc, msp = etl.MemorySource(csvb), etl.MemorySource(pkb)
        configs.append(('fromcsv(MemorySource)', r, (lambda msc=msc: etl.fromcsv(msc)), None))
        configs.append(('frompickle(MemorySource)', r, (lambda msp=msp: etl.frompickle(msp)), None))
        configs.append(('fromtext(MemorySource)', r, (lambda msc=msc: etl.fromtext(msc)), None))
    # larger sources for the views whose shared state is positional (spill file, cache list)
    for r in (5,):
        T = [['k', 'v']] + [[i % 3, 'r%d' % i] for i in range(r)]
        configs.append(('fromdicts(generator)', r, (lambda T=T: etl.fromdicts((dict(zip(T[0], row)) for row in T[1:]), header=T[0])), None))
        configs.append(('fromdicts(generator,sample)', r, (lambda T=T: etl.fromdicts((dict(zip(T[0], row)) for row in T[1:]), sample=2)), None))
        configs.append(('cache(n=None)', r, (lambda T=T: etl.wrap(T).cache()), ('cache', None, T)))
        configs.append(('cache(n=3)', r, (lambda T=T: etl.wrap(T).cache(3)), ('cache', 3, T)))
        configs.append(('sort(buffersize=2,cache=True)', r, (lambda T=T: etl.sort(T, 'k', buffersize=2, tempdir=tmpd)), None))
    # a generator whose pickled rows fill several 8 KiB blocks: a lagging iterator paused inside a block the leader has left
    for nmid, pause in ((700, 11), (700, 250), (1500, 600)):
        vmid = etl.fromdicts(({'a': i, 'txt': 'row-%d' % i} for i in range(nmid)), header=['a', 'txt'])
        lead, lag = iter(vmid), iter(vmid)
        got_lag = [tuple(next(lag)) for _ in range(pause)]
        taken = [tuple(r) for r in itertools.islice(lead, pause + 260)]
        got_lag += [tuple(r) for r in lag]
        rest = [tuple(r) for r in lead]
        want_mid = [('a', 'txt')] + [(i, 'row-%d' % i) for i in range(nmid)]
        ctx.case(('fromdicts(generator)', 'several-blocks', nmid, pause))
        ctx.count('view:fromdicts-blocks')
        if got_lag != want_mid or taken + rest != want_mid or [tuple(r) for r in vmid] != want_mid:
            bad = next((i for i, (x, y) in enumerate(zip(got_lag, want_mid)) if x != y), min(len(got_lag), len(want_mid)))
            ctx.spec_fail('fromdicts|blocks|wrong-rows', 'fromdicts(generator) of %d items: the lagging one of two iterators does not yield the rows of a solo pass' % nmid,
                          {'items': nmid, 'laggard paused after': pause, 'lagging iterator first differs at row': bad, 'rows it delivered': len(got_lag)})
        del vmid, lead, lag
    # thorough tier: a generator longer than any in-memory buffer a view may keep (100 000 rows and more), a leader far ahead
    # of a lagging iterator
    if ctx.thorough():
        nbig = 100050
        vbig = etl.fromdicts(({'a': i} for i in range(nbig)), header=['a'])
        lead, lag = iter(vbig), iter(vbig)
        got_lag = [tuple(next(lag)) for _ in range(11)]
        n_lead = sum(1 for _ in itertools.islice(lead, nbig - 20))
        got_lag += [tuple(r) for r in lag]
        rest_lead = list(lead)
        okbig = got_lag == [('a',)] + [(i,) for i in range(nbig)] and n_lead + len(rest_lead) == nbig + 1 and tuple(list(vbig)[-1]) == (nbig - 1,)
        ctx.case(('fromdicts(generator)', 'long', nbig))
        ctx.count('view:fromdicts-long')
        if not okbig:
            bad = next((i for i, r in enumerate(got_lag) if r != (('a',) if i == 0 else (i - 1,))), len(got_lag))
            ctx.spec_fail('fromdicts|long|wrong-rows', 'fromdicts(generator) of %d items: the lagging one of two iterators does not yield the rows of a solo pass' % nbig,
                          {'items': nbig, 'lagging iterator first differs at row': bad, 'rows it delivered': len(got_lag)})
        del vbig, lead, lag
    mach_lines, mach_meta = [], []
    try:
        for (name, r, mk, mach) in configs:
            try:
                solo = [proto.enc_row(x) for x in iter(mk())]
            except Exception as e:   # noqa
                ctx.spec_fail('%s|solo-raises' % name, 'a single pass over the view raises %r' % e, {'view': name})
                continue
            full = len(solo) - 1
            for sched in schedules(rng, max(full, 0), ctx.thorough()):
                trace, view = run_schedule(mk, sched)
                want = spec_trace(solo, sched)
                both = ('x0' in sched and 'x1' in sched)
                ctx.case((name, r, tuple(sched)) if both else None,
                         sample={'view': name, 'rows': r, 'schedule': ' '.join(sched), 'trace': trace} if len(ctx.samples) < 5 and both and len(sched) > 8 and ctx.evaluations % 97 == 0 else None)
                ctx.count('view:' + name.split('(')[0])
                if trace != want:
                    bad = next(i for i, (a, b) in enumerate(zip(trace, want)) if a != b)
                    kind = 'crash' if trace[bad].startswith('CRASH') else ('stops-early' if trace[bad] == 'STOP' else 'wrong-rows')
                    # which iterator misbehaves: a later fresh pass, or a live iterator
                    ctx.spec_fail('%s|%s' % (name.split('(')[0], kind),
                                  'an iterator over %s does not yield the rows of a solo pass under this schedule' % name,
                                  {'view': name, 'source_rows': r, 'schedule': ' '.join(sched), 'first_bad_op': bad,
                                   'got': trace[bad], 'want': want[bad], 'trace': trace})
                if mach is not None and mach[0] == 'cache' and not any(o[0] in 'dL' for o in sched):
                    mach_lines.append('mach cache 1 %s %s %s' % (proto.enc_opt(mach[1]), proto.enc_table([tuple(x) for x in mach[2]]),
                                                                 proto.enc_list(sched)))
                    mach_meta.append((name, sched, trace, len(view.cache), view.cachecomplete))
                del view
        # a payload larger than one read chunk of the text layer, two iterators advanced alternately, then a fresh pass
        bigT = [['k', 'v']] + [[str(i), 'value-%06d-%s' % (i, 'x' * 20)] for i in range(1200)]
        bigcsv = ''.join(','.join(row) + '\r\n' for row in bigT).encode()
        for vname, mkv in (('fromcsv(MemorySource, 40 KiB)', lambda: etl.fromcsv(etl.MemorySource(bigcsv))),
                           ('fromtext(MemorySource, 40 KiB)', lambda: etl.fromtext(etl.MemorySource(bigcsv))),
                           ('cache(fromcsv(MemorySource, 40 KiB))', lambda: etl.fromcsv(etl.MemorySource(bigcsv)).cache())):
            v = mkv()
            solo = list(v)
            a, b = iter(v), iter(v)
            ra, rb = [], []
            try:
                for i in range(len(solo)):
                    ra.append(next(a))
                    if i % 3 == 0:
                        rb.append(next(b))
                rb += list(b)
                later = list(v)
                okb = (ra == solo and rb == solo and later == solo)
                what = 'rows differ'
            except Exception as e:   # noqa
                okb, what = False, 'raised %r' % e
            ctx.case((vname, 'alternating'))
            ctx.count('view:big-shared-source')
            if not okb:
                ctx.spec_fail('%s|interleaving' % vname.split('(')[0], 'two alternating iterators over %s: %s' % (vname, what),
                              {'view': vname, 'rows': len(solo) - 1, 'schedule': 'a every step, b every third step, then b to the end, then a fresh pass'})
        # the CacheView machine itself (trace + cache length + completeness flag) against the real object
        for (name, sched, trace, clen, ccomp), out in zip(mach_meta, lean.run_driver(mach_lines)):
            real = ' | '.join(trace) + ' # cache=%d complete=%s' % (clen, proto.enc_bool(ccomp))
            ctx.exact(real == out, {'view': name, 'schedule': ' '.join(sched), 'real': real, 'machine': out})
        # ---- every view of the operator catalogue under sampled schedules
        cat = c20.catalogue(etl)
        ROWS2 = [['k', 'v'], [1, 2], [1, 3], ['a', 5]]
        for (name, arity, real, line) in cat:
            if name in ('progress', 'look', 'cache') or real is None:
                continue
            mk = (lambda real=real, arity=arity: real(*([ROWS2] * arity)))
            try:
                v = mk()
                if not hasattr(v, '__iter__') or isinstance(v, (list, tuple, dict)):
                    continue
                solo = [proto.enc_row(x) for x in iter(v)]
            except Exception:   # noqa
                continue
            for sched in schedules(rng, len(solo) - 1, False, how_many=(12 if ctx.thorough() else 5)):
                trace, view = run_schedule(mk, sched)
                want = spec_trace(solo, sched)
                ctx.case((name, tuple(sched)))
                ctx.count('catalogue-view')
                if trace != want:
                    bad = next(i for i, (a, b) in enumerate(zip(trace, want)) if a != b)
                    ctx.spec_fail('%s|interleaving' % name, 'an iterator over %s does not yield the rows of a solo pass' % name,
                                  {'view': name, 'schedule': ' '.join(sched), 'first_bad_op': bad, 'got': trace[bad], 'want': want[bad]})
    finally:
        gc.collect()
        shutil.rmtree(tmpd, ignore_errors=True)


def replay(d):
    print('replay case:', d.get('case'))
    return 0
