"""C03 — transformations never modify their inputs or rows already delivered."""
import copy, operator
from collections import OrderedDict
from .. import lean, proto, util
from . import c20

REQUIRED = ['Petl.C03.' + n for n in (
    'sound_step safe_sound okLog_rejects_foreign_write okLog_rejects_write_after_release all_bodies_safe '
    'translator_selftest').split()]


def same(a, b):
    """deep equality that also insists on equal container types (a list that became a tuple is a change)"""
    if type(a) is not type(b):
        return False
    if isinstance(a, (list, tuple)):
        return len(a) == len(b) and all(same(x, y) for x, y in zip(a, b))
    if isinstance(a, dict):
        return list(a.keys()) == list(b.keys()) and all(same(a[k], b[k]) for k in a)
    if isinstance(a, float) and a != a:
        return b != b
    if type(a).__eq__ is object.__eq__:
        return True          # identity-compared objects (views, exceptions, compiled patterns): nothing to compare by value
    try:
        return bool(a == b)
    except Exception:   # noqa
        return True


def flavours(rng):
    """source tables as lists of mutable lists, every one with fields k, v"""
    def rows(mk, n):
        return [['k', 'v']] + [mk(i) for i in range(n)]
    n = rng.choice([3, 4, 5, 6])
    keys = [rng.choice([1, 2, 3]) for _ in range(n)]
    out = OrderedDict()
    out['numeric'] = rows(lambda i: [keys[i], rng.choice([1, 2, 5, None])], n)
    out['text'] = rows(lambda i: ['%s-%d' % (rng.choice('abc'), keys[i]), rng.choice(['x', 'yy', ''])], n)
    out['tuple-values'] = rows(lambda i: [keys[i], (i, i + 1)], n)
    out['list-values'] = rows(lambda i: [keys[i], [i, [i + 1]]], n)          # mutable cells
    out['dict-values'] = rows(lambda i: [keys[i], {'a': i, 'b': [i]}], n)
    out['dict-values-differing-keys'] = rows(lambda i: [keys[i], [{'a': i}, {'b': [i]}, {'a': i, 'c': None}, {}][i % 4]], n)
    out['with-none'] = rows(lambda i: [rng.choice([None, keys[i]]), rng.choice([None, 1, 2])], n)
    rag = rows(lambda i: [keys[i], rng.choice([1, 2, None])], n)
    for i in range(1, len(rag)):
        c = rng.choice([0, 0, 1, 2])
        if c == 1:
            rag[i] = rag[i][:1]
        elif c == 2:
            rag[i] = rag[i] + [rng.choice([7, None])]
    out['ragged'] = rag
    out['sorted'] = rows(lambda i: [i // 2, i], n)
    out['header-only'] = [['k', 'v']]
    return out


def extras(etl):
    """argument variants beyond the C20 catalogue: (name, arity, thunk)"""
    U = lambda name, f: (name, 1, f, None)
    B = lambda name, f: (name, 2, f, None)
    return [
        B('stack(trim=False)', lambda a, b: etl.stack(a, b, trim=False)),
        B('stack(pad=False)', lambda a, b: etl.stack(a, b, pad=False)),
        B('stack(missing=0)', lambda a, b: etl.stack(a, b, missing=0)),
        B('cat(header)', lambda a, b: etl.cat(a, b, header=['v', 'k', 'z'])),
        B('cat(missing)', lambda a, b: etl.cat(a, b, missing=0)),
        B('annex(missing)', lambda a, b: etl.annex(a, b, missing=0)),
        # user functions that keep what they are handed: what was delivered must not change afterwards
        U('pivot(aggfun keeps its argument)', lambda a: etl.pivot(etl.addfield(a, 'w', 1), 'k', 'v', 'w', lambda vs: vs)),
        U('aggregate(keeps the group)', lambda a: etl.aggregate(a, 'k', lambda g: g if isinstance(g, list) else list(g), 'v')),
        U('rowreduce(keeps the rows)', lambda a: etl.rowreduce(a, 'k', lambda k, rows: [k, list(rows)], header=['k', 'rows'])),
        U('fold(keeps the accumulator)', lambda a: etl.fold(a, 'k', lambda acc, v: acc + [v], 'v', []) if True else None),
        U('stack(trim=False)', lambda a: etl.stack(a, trim=False)),
        U('unjoin(presorted)[0]', lambda a: etl.unjoin(a, 'v', presorted=True)[0]),
        U('unjoin(presorted)[1]', lambda a: etl.unjoin(a, 'v', presorted=True)[1]),
        U('unjoin(key, presorted)[0]', lambda a: etl.unjoin(a, 'v', key='k', presorted=True)[0]),
        U('duplicates(presorted)', lambda a: etl.duplicates(a, 'k', presorted=True)),
        U('distinct(presorted)', lambda a: etl.distinct(a, 'k', presorted=True)),
        U('aggregate(presorted)', lambda a: etl.aggregate(a, 'k', list, presorted=True)),
        U('rowgroupmap(presorted)', lambda a: etl.rowgroupmap(a, 'k', lambda k, rows: ([k, len(r)] for r in rows), header=['k', 'n'], presorted=True)),
        B('join(presorted)', lambda a, b: etl.join(a, b, key='k', presorted=True)),
        B('complement(presorted)', lambda a, b: etl.complement(a, b, presorted=True)),
        B('stack(trim=False, two tables)', lambda a, b: etl.stack(a, b, trim=False, missing='M')),
        U('stack(pad=False)', lambda a: etl.stack(a, pad=False)),
        # other numbers of operands than two: one table squared up by cat/stack, three and four tables side by side
        U('cat(one table)', lambda a: etl.cat(a)),
        U('cat(one table, missing)', lambda a: etl.cat(a, missing='NA')),
        U('stack(one table)', lambda a: etl.stack(a)),
        B('annex(three tables)', lambda a, b: etl.annex(a, b, [['z'], [1], [2]])),
        B('annex(four tables)', lambda a, b: etl.annex(a, [['y'], [0]], b, [['z'], [1], [2]])),
        B('cat(three tables)', lambda a, b: etl.cat(a, [['k', 'z'], [9, 9]], b)),
        B('stack(three tables)', lambda a, b: etl.stack(a, [['k', 'z'], [9, 9]], b)),
        B('mergesort(three tables)', lambda a, b: etl.mergesort(a, [['k', 'z'], [9, 9]], b, key='k')),
        U('sort(reverse)', lambda a: etl.sort(a, 'k', reverse=True)),
        U('sort(buffersize=2)', lambda a: etl.sort(a, 'k', buffersize=2)),
        U('sort(cache=False)', lambda a: etl.sort(a, 'k', cache=False)),
        B('mergesort(presorted)', lambda a, b: etl.mergesort(a, b, key='k', presorted=True)),
        B('mergesort(header)', lambda a, b: etl.mergesort(a, b, key='k', header=['k', 'v', 'z'])),
        U('addfield(index=0)', lambda a: etl.addfield(a, 'new', lambda r: r[0], index=0)),
        U('addfields(callable)', lambda a: etl.addfields(a, [('n1', lambda r: r[0]), ('n2', 2, 0)])),
        U('addcolumn(values)', lambda a: etl.addcolumn(a, 'c', [1, 2, 3, 4, 5, 6, 7, 8], index=0)),
        U('addrownumbers(field)', lambda a: etl.addrownumbers(a, start=5, step=2, field='n')),
        U('cut(missing)', lambda a: etl.cut(a, 'v', 'k', missing=0)),
        U('cut(index)', lambda a: etl.cut(a, 1, 0)),
        U('movefield(end)', lambda a: etl.movefield(a, 'k', 5)),
        U('convert(dict)', lambda a: etl.convert(a, {'k': str, 'v': repr})),
        U('convert(where)', lambda a: etl.convert(a, 'v', lambda v: 0, where=lambda r: r.k == 1)),
        U('convert(pass_row)', lambda a: etl.convert(a, 'v', lambda v, row: len(row), pass_row=True)),
        U('convert(failonerror=False)', lambda a: etl.convert(a, 'v', lambda v: v + 1, failonerror=False, errorvalue='E')),
        U('convert(mapping)', lambda a: etl.convert(a, 'k', {1: 'one', 2: 'two'})),
        U('filldown(v)', lambda a: etl.filldown(a, 'v')),
        U('filldown(missing)', lambda a: etl.filldown(a, missing=1)),
        U('fillright(missing)', lambda a: etl.fillright(a, missing=1)),
        U('fillleft(missing)', lambda a: etl.fillleft(a, missing=1)),
        U('select(complement)', lambda a: etl.select(a, 'k', lambda v: v == 1, complement=True)),
        U('selectusingcontext(p)', lambda a: etl.selectusingcontext(a, lambda p, c, n: p is None or n is None)),
        U('addfieldusingcontext(p)', lambda a: etl.addfieldusingcontext(a, 'd', lambda p, c, n: None if p is None else p.k)),
        U('rowmap(record)', lambda a: etl.rowmap(a, lambda r: [r.k, r.k], header=['x', 'y'])),
        U('rowmapmany(record)', lambda a: etl.rowmapmany(a, lambda r: [[r.k, 1], [r.k, 2]], header=['x', 'y'])),
        U('rowgroupmap(mut)', lambda a: etl.rowgroupmap(a, 'k', lambda k, rows: [[k, len(list(rows))]], header=['k', 'n'])),
        U('fieldmap(compose)', lambda a: etl.fieldmap(a, OrderedDict([('x', 'k'), ('y', ('k', {1: 'one'})), ('z', lambda r: r.v)]))),
        U('melt(variables)', lambda a: etl.melt(a, 'k', variables=['v'])),
        U('recast(reducers)', lambda a: etl.recast(etl.melt(a, 'k'), key='k', reducers={'v': list})),
        U('pivot(list)', lambda a: etl.pivot(a, 'k', 'v', 'k', list)),
        U('transpose', lambda a: etl.transpose(a)),
        U('unpack(include)', lambda a: etl.unpack(a, 'v', ['a', 'b'], include_original=True)),
        U('unpack(newfields=3)', lambda a: etl.unpack(a, 'v', 3)),
        U('unpackdict(keys)', lambda a: etl.unpackdict(a, 'v', keys=['a', 'b'], includeoriginal=True)),
        U('capture(include)', lambda a: etl.capture(a, 'k', '(.)-(.)', ['a', 'b'], include_original=True)),
        U('capture(fill)', lambda a: etl.capture(a, 'k', '(x)(y)', ['a', 'b'], fill=['', ''])),
        U('split(include)', lambda a: etl.split(a, 'k', '-', ['a', 'b'], include_original=True)),
        U('splitdown', lambda a: etl.splitdown(a, 'k', '-')),
        U('sub(count)', lambda a: etl.sub(a, 'k', '-', '+', count=1)),
        B('join(prefix)', lambda a, b: etl.join(a, b, key='k', lprefix='l_', rprefix='r_')),
        B('leftjoin(missing)', lambda a, b: etl.leftjoin(a, b, key='k', missing=0)),
        B('outerjoin(missing)', lambda a, b: etl.outerjoin(a, b, key='k', missing=0)),
        B('lookupjoin(missing)', lambda a, b: etl.lookupjoin(a, b, key='k', missing=0)),
        B('hashleftjoin(missing)', lambda a, b: etl.hashleftjoin(a, b, key='k', missing=0)),
        B('hashrightjoin(missing)', lambda a, b: etl.hashrightjoin(a, b, key='k', missing=0)),
        B('join(natural)', lambda a, b: etl.join(a, b)),
        B('join(lkey,rkey)', lambda a, b: etl.join(a, b, lkey='k', rkey='v')),
        B('crossjoin', lambda a, b: etl.crossjoin(a, b, prefix=True)),
        B('complement(strict)', lambda a, b: etl.complement(a, b, strict=True)),
        B('recorddiff', lambda a, b: etl.recorddiff(a, b)[0]),
        B('diff', lambda a, b: etl.diff(a, b)[1]),
        U('unjoin[1]', lambda a: etl.unjoin(a, 'v', key='k')[1]),
        U('unjoin(autoincrement)', lambda a: etl.unjoin(a, 'v')[0]),
        U('distinct(presorted)', lambda a: etl.distinct(a, 'k', presorted=True)),
        U('conflicts(include)', lambda a: etl.conflicts(a, 'k', include='v')),
        U('mergeduplicates(missing)', lambda a: etl.mergeduplicates(a, 'k', missing=1)),
        U('aggregate(list)', lambda a: etl.aggregate(a, 'k', list, 'v')),
        U('aggregate(rows)', lambda a: etl.aggregate(a, 'k', OrderedDict([('rows', list), ('vs', ('v', list))]))),
        U('rowreduce(rows)', lambda a: etl.rowreduce(a, 'k', lambda k, rows: [k, list(rows)], header=['k', 'rows'])),
        U('fold(list)', lambda a: etl.fold(a, 'k', lambda x, y: x + [y], 'v', [])),
        U('groupselectfirst', lambda a: etl.groupselectfirst(a, 'k')),
        U('tail(1)', lambda a: etl.tail(a, 1)),
        U('skip(1)', lambda a: etl.skip(a, 1)),
        U('rename(dict)', lambda a: etl.rename(a, {'k': 'kk', 'v': 'vv'})),
        U('sortheader(reverse)', lambda a: etl.sortheader(a, reverse=True)),
        U('flatten', lambda a: [tuple(etl.flatten(a))]),
        U('listoflists', lambda a: etl.listoflists(a)),
        U('tupleoflists', lambda a: etl.tupleoflists(a)),
        U('columns', lambda a: [tuple(etl.columns(a).items())]),
        U('facetcolumns', lambda a: [tuple(etl.facetcolumns(a, 'k').items())]),
        U('lookup(value)', lambda a: [tuple(etl.lookup(a, 'k', 'v').items())]),
        U('dictlookupone', lambda a: [tuple(etl.dictlookupone(a, 'k', strict=False).items())]),
        U('recordlookupone', lambda a: [tuple(etl.recordlookupone(a, 'k', strict=False).items())]),
        U('look', lambda a: [(str(etl.look(a)),)]),
        U('lookall', lambda a: [(str(etl.lookall(a, style='simple')),)]),
        U('see', lambda a: [(str(etl.see(a)),)]),
        U('tocsv', lambda a: [(etl.tocsv(etl.convertall(a, str), etl.MemorySource()),)]),
        U('topickle', lambda a: [(etl.topickle(a, etl.MemorySource()),)]),
        U('totext', lambda a: [(etl.totext(a, etl.MemorySource(), template='{k} {v}\n'),)]),
        U('tohtml', lambda a: [(etl.tohtml(a, etl.MemorySource()),)]),
        U('tojson', lambda a: [(etl.tojson(etl.convertall(a, str), etl.MemorySource()),)]),
        U('teepickle', lambda a: etl.teepickle(a, etl.MemorySource())),
        U('teehtml', lambda a: etl.teehtml(a, etl.MemorySource())),
        U('fromdicts(dicts)', lambda a: etl.fromdicts(list(etl.dicts(a)))),
        U('wrap.cache', lambda a: etl.wrap(a).cache(2)),
        U('validate(constraints)', lambda a: etl.validate(a, constraints=[dict(name='kint', field='k', test=int)], header=('k', 'v'))),
        U('typeset', lambda a: [(tuple(sorted(t.__name__ for t in etl.typeset(a, 'v'))),)]),
        U('valuecounter', lambda a: [tuple(etl.valuecounter(a, 'k').items())]),
        U('stringpatterns', lambda a: etl.stringpatterns(a, 'k')),
        U('rowlengths', lambda a: etl.rowlengths(a)),
        U('intervals-free', lambda a: etl.selectcontains(a, 'k', '-')),
    ]


def run_one(ctx, name, thunk, tables, mode, rng):
    """evaluate thunk(*tables) in the given mode; returns (status, violation or None)"""
    before = copy.deepcopy(tables)
    delivered, copies = [], []
    status = 'ok'
    try:
        res = thunk(*tables)
        if mode == 'full':
            for r in res:
                delivered.append(r)
                copies.append(copy.deepcopy(r))
        elif mode == 'partial':
            k = rng.choice([1, 2, 3])
            it = iter(res)
            for _ in range(k):
                try:
                    r = next(it)
                except StopIteration:
                    break
                delivered.append(r)
                copies.append(copy.deepcopy(r))
            del it
        elif mode == 'twice':
            for _pass in range(2):
                for r in res:
                    delivered.append(r)
                    copies.append(copy.deepcopy(r))
        elif mode == 'interleaved':
            i1, i2 = iter(res), iter(res)
            done1 = done2 = False
            while not (done1 and done2):
                for which in (1, 2, 2):
                    try:
                        r = next(i1 if which == 1 else i2)
                        delivered.append(r)
                        copies.append(copy.deepcopy(r))
                    except StopIteration:
                        if which == 1:
                            done1 = True
                        else:
                            done2 = True
    except Exception as e:   # noqa
        status = 'exc:' + type(e).__name__
    for ti, (t, b) in enumerate(zip(tables, before)):
        if not same(t, b):
            row = next((i for i, (x, y) in enumerate(zip(t, b)) if not same(x, y)), None)
            return status, ('source-modified', 'source table %d %s' % (ti, 'row %d: %r was %r' % (row, t[row], b[row]) if row is not None
                                                                     else 'changed length %d -> %d' % (len(b), len(t))))
    for i, (r, c) in enumerate(zip(delivered, copies)):
        try:
            ok = same(r, c) or (not isinstance(r, (list, tuple, dict)) and r == c)
        except Exception:   # noqa
            ok = True
        if not ok:
            return status, ('delivered-row-modified', 'row %d delivered as %r is now %r' % (i, c, r))
    return status, None


def run(ctx):
    import petl as etl
    from translators import heap_ir
    ctx.rule = ('every operator of the C20 catalogue plus %d argument variants (stack/cat/annex options, sort modes, joins with prefixes and '
                'missing, fills, conversions with where/pass_row/failonerror, unpack/capture/split with include_original, reshape, '
                'aggregations that hand rows to the reducer, lookups, writers and tee writers) over source tables that are lists of mutable '
                'lists in 9 flavours (numeric, text, tuple / list / dict cells, None, ragged short and long rows, sorted, header only), '
                'evaluated fully, partially (1-3 rows then abandoned), twice, and by two interleaved iterators: a deep type-strict snapshot '
                'of every source before vs after, and every delivered row compared at the end with a deep copy taken when it was delivered. '
                'Non-trivial: the evaluation delivered at least 2 rows from a source with at least 2 data rows.' % len(extras(etl)))
    ctx.assumptions += ['the translation of Python statements into the ownership IR (translators/heap_ir.py) is trusted and validated on '
                        'every run by the reference snippets (theorem translator_selftest) and by this dynamic check',
                        'mutation through user-supplied callables and through C extension code is outside the model',
                        'partial: 23 function bodies are on the hand-reviewed list (lean/PetlProofs/HeapReviewed.lean) and rest on the dynamic check only']
    try:
        info = heap_ir.generate()
        ctx.bridge('translator: ownership IR of %d function bodies (%d with in-place writes, %d IR nodes), %d reference snippets'
                   % (info['functions'], info['with_writes'], info['nodes'], info['selftests']), True)
    except Exception as e:   # noqa
        ctx.bridge('translator: ownership IR extracted', False, repr(e))
    from translators import fingerprints as _fp
    try:
        _fpi = _fp.generate()
        ctx.bridge('translator: fingerprints of the petl sources this check vouches for (%d entries over all properties)' % _fpi['names'], True)
    except Exception as e:   # noqa
        ctx.bridge('translator: source fingerprints extracted', False, repr(e))
    ctx.prove(['PetlProofs.Props.C03', 'PetlProofs.Snapshot.C03'], REQUIRED + ['Petl.Snapshot.C03_sources_as_validated'])
    rng = ctx.rng
    cat = [(n, a, r) for (n, a, r, l) in c20.catalogue(etl) if r is not None and n not in ('progress',)]
    cat += [(n, a, r) for (n, a, r, l) in extras(etl)]
    rounds = 6 if ctx.thorough() else 1
    modes = ['full', 'partial', 'twice', 'interleaved']
    for rd in range(rounds):
        fl = flavours(rng)
        fl2 = flavours(rng)
        for name, arity, thunk in cat:
            for fname, table in fl.items():
                for mode in modes:
                    if mode in ('twice', 'interleaved') and fname not in ('numeric', 'ragged', 'list-values'):
                        continue
                    tables = [copy.deepcopy(table)]
                    if arity == 2:
                        other = fl2[fname] if rng.random() < 0.7 else fl2[rng.choice(list(fl2))]
                        tables.append(copy.deepcopy(other))
                    status, bad = run_one(ctx, name, thunk, tables, mode, rng)
                    nt = status == 'ok' and len(table) > 2
                    ctx.case((name, fname, mode, repr(tables)) if nt else None,
                             sample={'op': name, 'flavour': fname, 'mode': mode, 'tables': repr(tables)[:300]}
                             if nt and len(ctx.samples) < 5 and ctx.evaluations % 499 == 0 else None)
                    ctx.count('mode:' + mode)
                    ctx.count('status:' + ('ok' if status == 'ok' else 'raised'))
                    ctx.count('flavour:' + fname)
                    if bad is not None:
                        ctx.spec_fail('%s|%s' % (name, bad[0]), '%s (%s, %s evaluation): %s' % (name, fname, mode, bad[1]),
                                      {'op': name, 'flavour': fname, 'mode': mode, 'tables_before': repr(copy.deepcopy(fl[fname])),
                                       'what': bad[1]})


def replay(d):
    print('replay case:', d.get('case'))
    return 0
