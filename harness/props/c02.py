"""C02 — pipelines are lazy: construction reads no data row; k output rows cost O(k) source rows,
independent of the source length."""
import os
import io, re, pickle, random
from collections import OrderedDict
from contextlib import contextmanager
from itertools import islice
from .. import lean, proto, util

REQUIRED = ['Petl.C02.' + n for n in (
    'construct_pulls_zero runLazy_outputs pulls_le_length minimal_prefix length_independent oneToOne_pulls '
    'filter_pulls lookahead_pulls constructors_read_only_where_allowed iterators_materialise_only_where_allowed').split()]

HDR = ('a', 'b', 'c')
WORDS = ['x-1', 'y-2', 'xy-3', 'z-4', 'xx-5']


def source_row(seed, i, ragged):
    """row i of the source with this seed: a pure function, so a 100-row and a 10000-row source share their prefix"""
    h = (seed * 1000003 + i * 7919 + 17) % 104729
    c = [None, h % 11, (h % 7) / 2.0, h % 5][h % 4]
    row = (i, WORDS[h % 5], c)
    if ragged and h % 6 == 0:
        return row[:2]
    if ragged and h % 6 == 1:
        return row + (h % 3,)
    return row


class Bomb(BaseException):
    """raised by a source asked for more rows than the experiment allows"""


class SrcBase(object):
    """a table container that counts what is pulled from it"""

    def __init__(self, n, seed, ragged=False, hdr=HDR, row=None, bomb=False):
        self.n, self.seed, self.ragged, self.hdr, self.bomb = n, seed, ragged, hdr, bomb
        self.row = row or (lambda i: source_row(seed, i, ragged))
        self.opens = self.hdr_pulls = self.pulls = 0

    def __iter__(self):
        self.opens += 1
        return self._gen()

    def _gen(self):
        self.hdr_pulls += 1
        yield tuple(self.hdr)
        for i in range(self.n):
            self.pulls += 1
            yield self.row(i)
        if self.bomb:
            raise Bomb()


Src = SrcBase          # run() adds a variant that is also a petl Table (so that len()/bool() on it iterate, as for any petl view)
TableSrc = None


class ListSrc(object):
    def __init__(self, rows):
        self.rows = rows
        self.total = 0       # rows handed out, header included

    def __iter__(self):
        for r in self.rows:
            self.total += 1
            yield r


SMALL = [('a', 'p')] + [(i, 'v%d' % i) for i in range(0, 40)]           # build side of the hash joins: every key once
SMALLHALF = [('a', 'p')] + [(i, 'v%d' % i) for i in range(0, 400, 2)]
SMALLROWS = [HDR] + [source_row(0, i, False) for i in range(0, 30, 3)]


def catalog(etl):
    from petl.util.materialise import cache
    """name -> (builder(src) -> view, C) for single-source streaming operators; C = allowed lookahead constant"""
    ops = OrderedDict()

    def add(name, build, c=0, hdr_ok=False, ragged_ok=True):
        ops[name] = (build, c, hdr_ok, ragged_ok)
    add('cut', lambda s: etl.cut(s, 'a', 'c'))
    add('cut-missing', lambda s: etl.cut(s, 'c', 'a', missing=0))
    add('cut-index', lambda s: etl.cut(s, 2, 0))
    add('cutout', lambda s: etl.cutout(s, 'b'))
    add('cat1', lambda s: etl.cat(s))
    add('cat-header', lambda s: etl.cat(s, header=['c', 'a', 'z']))
    add('stack1', lambda s: etl.stack(s))
    add('addfield-const', lambda s: etl.addfield(s, 'z', 1))
    add('addfield-fn', lambda s: etl.addfield(s, 'z', lambda r: r['a'] * 2))
    add('addfield-index', lambda s: etl.addfield(s, 'z', lambda r: r[0], index=0))
    add('addfields', lambda s: etl.addfields(s, [('z', 1), ('y', lambda r: r['a'])]))
    add('addrownumbers', lambda s: etl.addrownumbers(s))
    add('addcolumn', lambda s: etl.addcolumn(s, 'z', [1, 2, 3]))
    add('movefield', lambda s: etl.movefield(s, 'c', 0))
    add('addfieldusingcontext', lambda s: etl.addfieldusingcontext(s, 'z', lambda p, c, n: (p.a if p else None, n.a if n else None)), c=1)
    add('rowslice-2-', lambda s: etl.rowslice(s, 2, None))
    add('rowslice-0-50-2', lambda s: etl.rowslice(s, 0, 50, 2))
    add('rowslice-0-6-2', lambda s: etl.rowslice(s, 0, 6, 2))            # a stepped slice shorter than what is asked for: it must stop at `stop`
    add('rowslice-1-7-3', lambda s: etl.rowslice(s, 1, 7, 3))
    add('head', lambda s: etl.head(s, 5))
    add('skip', lambda s: etl.skip(s, 2))
    add('skipcomments', lambda s: etl.skipcomments(etl.convert(s, 'a', lambda v: ('#' if v % 3 == 0 else '') + str(v)), '#'))
    add('annex1', lambda s: etl.annex(s, SMALL))
    add('convert', lambda s: etl.convert(s, 'a', lambda v: v + 1))
    add('convert-dict', lambda s: etl.convert(s, {'a': str, 'b': 'upper'}))
    add('convert-where', lambda s: etl.convert(s, 'a', lambda v: -v, where=lambda r: r.a % 2 == 0))
    add('convert-passrow', lambda s: etl.convert(s, 'a', lambda v, row: (v, row.b), pass_row=True))
    add('convert-failonerror-none', lambda s: etl.convert(s, 'c', lambda v: v + 1, errorvalue='E'))
    add('convertall', lambda s: etl.convertall(s, str), hdr_ok=True)
    add('convertnumbers', lambda s: etl.convertnumbers(s), hdr_ok=True)
    add('replace', lambda s: etl.replace(s, 'b', 'x-1', 'Q'))
    add('replaceall', lambda s: etl.replaceall(s, None, 0), hdr_ok=True)
    add('update', lambda s: etl.update(s, 'b', 0))
    add('format', lambda s: etl.format(s, 'a', '{:03d}'))
    add('formatall', lambda s: etl.formatall(s, '{}'), hdr_ok=True)
    add('interpolate', lambda s: etl.interpolate(s, 'a', '%s!'))
    add('interpolateall', lambda s: etl.interpolateall(s, '%s'), hdr_ok=True)
    add('rename', lambda s: etl.rename(s, 'a', 'x'))
    add('rename-dict', lambda s: etl.rename(s, {'a': 'x', 'c': 'y'}))
    add('setheader', lambda s: etl.setheader(s, ['x', 'y', 'z']))
    add('extendheader', lambda s: etl.extendheader(s, ['d']))
    add('pushheader', lambda s: etl.pushheader(s, ['x', 'y', 'z']))
    add('prefixheader', lambda s: etl.prefixheader(s, 'p_'))
    add('suffixheader', lambda s: etl.suffixheader(s, '_s'))
    add('sortheader', lambda s: etl.sortheader(s, reverse=True))
    add('filldown', lambda s: etl.filldown(s))
    add('filldown-c', lambda s: etl.filldown(s, 'c'))
    add('fillright', lambda s: etl.fillright(s))
    add('fillleft', lambda s: etl.fillleft(s))
    add('select-row', lambda s: etl.select(s, lambda r: r.a % 3 == 0))
    add('select-field', lambda s: etl.select(s, 'a', lambda v: v % 4 == 1))
    add('select-complement', lambda s: etl.select(s, 'a', lambda v: v % 4 == 1, complement=True))
    add('selecteq', lambda s: etl.selecteq(s, 'b', 'x-1'))
    add('selectne', lambda s: etl.selectne(s, 'b', 'x-1'))
    add('selectgt', lambda s: etl.selectgt(s, 'a', 3))
    add('selectnotnone', lambda s: etl.selectnotnone(s, 'c'))
    add('selectnone', lambda s: etl.selectnone(s, 'c'))
    add('selectin', lambda s: etl.selectin(s, 'b', ['x-1', 'z-4']))
    add('selectrangeopen', lambda s: etl.selectrangeopen(s, 'a', 1, 1000000))
    add('rowlenselect', lambda s: etl.rowlenselect(s, 3))
    add('selectusingcontext', lambda s: etl.selectusingcontext(s, lambda p, c, n: p is None or c.a % 2 == 0), c=1)
    add('search', lambda s: etl.search(s, 'b', 'x'))
    add('searchcomplement', lambda s: etl.searchcomplement(s, 'b', 'x'))
    add('sub', lambda s: etl.sub(s, 'b', '-', '+'))
    add('capture', lambda s: etl.capture(s, 'b', '([a-z]+)-([0-9])', ['p', 'q']))
    add('split', lambda s: etl.split(s, 'b', '-', ['p', 'q']))
    add('splitdown', lambda s: etl.splitdown(s, 'b', '-'))
    add('unpack', lambda s: etl.unpack(etl.convert(s, 'b', lambda v: tuple(v.split('-'))), 'b', ['p', 'q']))
    add('unpackdict-sampled', lambda s: etl.unpackdict(etl.convert(s, 'b', lambda v, row: {'w': v} if row.a < 2 else None, pass_row=True), 'b', samplesize=5), c=5)
    add('unpackdict', lambda s: etl.unpackdict(etl.convert(s, 'b', lambda v: {'w': v}), 'b', keys=['w']))
    add('unpackdict-sampled-no-dict', lambda s: etl.unpackdict(etl.convert(s, 'b', lambda v: None), 'b', samplesize=5), c=5)      # a column without any dict: the sample is still 5 rows
    add('fieldmap', lambda s: etl.fieldmap(s, OrderedDict([('x', 'a'), ('y', ('b', lambda v: v.upper())), ('z', lambda r: r.a + 1)])))
    add('rowmap', lambda s: etl.rowmap(s, lambda r: [r[0], r[1].upper()], header=['x', 'y']))
    add('rowmapmany', lambda s: etl.rowmapmany(s, lambda r: [[r[0], 1], [r[0], 2]], header=['x', 'y']))
    add('melt', lambda s: etl.melt(s, 'a'))
    add('flatten-unflatten', lambda s: etl.unflatten(etl.flatten(s), 3), c=1)
    add('hashjoin', lambda s: etl.hashjoin(s, SMALLHALF, key='a'))
    add('hashleftjoin', lambda s: etl.hashleftjoin(s, SMALL, key='a'))
    add('hashrightjoin', lambda s: etl.hashrightjoin(SMALLHALF, s, key='a'))
    add('hashantijoin', lambda s: etl.hashantijoin(s, SMALLHALF, key='a'))
    add('hashlookupjoin', lambda s: etl.hashlookupjoin(s, SMALL, key='a'))
    add('hashcomplement', lambda s: etl.hashcomplement(s, [HDR] + [source_row(s.seed, i, False) for i in range(0, 60, 3)]), ragged_ok=False)
    add('hashintersection', lambda s: etl.hashintersection(s, [HDR] + [source_row(s.seed, i, False) for i in range(0, 90, 2)]), ragged_ok=False)
    add('data', lambda s: etl.pushheader(Iter(lambda: etl.data(s)), HDR))
    add('values', lambda s: ValuesTable(etl, s))
    add('records', lambda s: Iter(lambda: _with_header(etl.records(s), lambda r: tuple(r))))
    add('dicts', lambda s: Iter(lambda: _with_header(etl.dicts(s), lambda d: tuple(d.values()))))
    add('namedtuples', lambda s: Iter(lambda: _with_header(etl.namedtuples(s), tuple)))
    add('rowgroupby', lambda s: Iter(lambda: _with_header(etl.rowgroupby(s, lambda r: r[0] // 2), lambda kv: (kv[0], len(list(kv[1]))))), c=2)
    add('progress', lambda s: etl.progress(s, 1000, out=io.StringIO()))
    add('clock', lambda s: etl.clock(s))
    add('cache', lambda s: cache(s))
    add('wrap', lambda s: etl.wrap(s))
    add('teecsv', lambda s: etl.teecsv(etl.convert(s, 'c', str), etl.MemorySource()))
    add('teetsv', lambda s: etl.teetsv(etl.convert(s, 'c', str), etl.MemorySource()))
    add('teepickle', lambda s: etl.teepickle(s, etl.MemorySource()))
    add('teetext', lambda s: etl.teetext(s, etl.MemorySource(), template='{a} {b}\n'), ragged_ok=True)
    add('teehtml', lambda s: etl.teehtml(s, etl.MemorySource()))
    return ops


class Iter(object):
    def __init__(self, thunk):
        self.thunk = thunk

    def __iter__(self):
        return iter(self.thunk())


def _with_header(it, f):
    yield ('hdr',)
    for x in it:
        yield f(x)


class ValuesTable(object):
    def __init__(self, etl, s):
        self.v = etl.values(s, 'a')

    def __iter__(self):
        return _with_header(self.v, lambda v: (v,))


def chain_ops(etl, rng):
    from petl.util.materialise import cache
    """shape-tolerant unary operators for random compositions: (name, fn(view) -> view, C)"""
    m = rng.choice([2, 3, 5])
    j = rng.choice([0, 1, 3])
    nm = 'f%d' % rng.randrange(1000)
    return [
        ('convert-b', lambda v: etl.convert(v, 'b', 'upper'), 0),
        ('convert-c', lambda v: etl.convert(v, 'c', lambda x: x, where=lambda r: r.a % m == 0), 0),
        ('select-a', lambda v: etl.select(v, 'a', lambda x: x % m != 1), 0),
        ('selectnotnone-c', lambda v: etl.selectnotnone(v, 'c'), 0),
        ('filldown', lambda v: etl.filldown(v, 'c'), 0),
        ('rowslice', lambda v: etl.rowslice(v, j, None), 0),
        ('addfield', lambda v: etl.addfield(v, nm, lambda r: r.a), 0),
        ('addrownumbers-end', lambda v: etl.addfield(v, nm, 0), 0),
        ('context', lambda v: etl.addfieldusingcontext(v, nm, lambda p, c, n: n is None), 1),
        ('selectcontext', lambda v: etl.selectusingcontext(v, lambda p, c, n: n is None or n.a % m != 0), 1),
        ('melt-unmelt', lambda v: etl.rowslice(v, 0, None, 1), 0),
        ('cat', lambda v: etl.cat(v), 0),
        ('replace', lambda v: etl.replace(v, 'b', 'X-1', 'q'), 0),
        ('sub', lambda v: etl.sub(v, 'b', '-', '_'), 0),
        ('movefield', lambda v: etl.movefield(v, 'c', 0), 0),
        ('cache', lambda v: cache(v), 0),
        ('hashleftjoin', lambda v: etl.hashleftjoin(v, SMALL, key='a', rprefix=nm), 0),
        ('search', lambda v: etl.search(v, 'b', '[xXyY]'), 0),
    ]


def consume(etl, view, how, k):
    """ask for k data rows; returns a canonical description of what came out"""
    try:
        if how == 'islice':
            out = list(islice(iter(view), k + 1))
        elif how == 'islice-twice':
            out = [list(islice(iter(view), k + 1)), list(islice(iter(view), k + 1))]     # two partial passes over the same view object
        elif how == 'head':
            out = list(islice(iter(etl.head(view, k)), k + 5))
        elif how == 'getitem-slice':
            out = list(etl.wrap(view)[:k + 1])          # the header and k rows, asked for by slicing the table object
        elif how == 'getitem-slice-step':
            out = list(etl.wrap(view)[0:k + 1:1])
        elif how == 'look':
            out = repr(etl.look(view, limit=k))
        elif how == 'lookstr':
            out = str(etl.lookstr(view, limit=k))
        elif how == 'see':
            out = repr(etl.see(view, limit=k))
        elif how == 'repr':
            out = repr(etl.wrap(view))          # default limit 5
        else:
            raise ValueError(how)
        return ('ok', repr(out), len(out) if isinstance(out, list) else None)
    except Exception as e:   # noqa
        return ('exc', type(e).__name__, None)


# constants a consumer adds on top of the operator's own lookahead (look/see/repr read one row more to detect overflow)
CONSUMER_C = {'islice': 0, 'islice-twice': 0, 'head': 0, 'look': 1, 'lookstr': 1, 'see': 1, 'repr': 1, 'getitem-slice': 0, 'getitem-slice-step': 0}


class CountingBytesIO(io.BytesIO):
    def __init__(self, data, owner):
        io.BytesIO.__init__(self, data)
        self.owner = owner

    def _note(self):
        self.owner.maxpos = max(self.owner.maxpos, self.tell())

    def read(self, *a):
        r = io.BytesIO.read(self, *a); self._note(); return r

    def read1(self, *a):
        r = io.BytesIO.read1(self, *a); self._note(); return r

    def readinto(self, b):
        r = io.BytesIO.readinto(self, b); self._note(); return r

    def readline(self, *a):
        r = io.BytesIO.readline(self, *a); self._note(); return r


class BytesSrc(object):
    def __init__(self, data):
        self.data = data
        self.maxpos = 0
        self.opens = 0

    @contextmanager
    def open(self, mode='rb'):
        self.opens += 1
        f = CountingBytesIO(self.data, self)
        try:
            yield f
        finally:
            pass


def run(ctx):
    import petl as etl
    from translators import ctor_purity
    global TableSrc
    TableSrc = type('TableSrc', (SrcBase, etl.Table), {})
    ctx.rule = ('every streaming operator of a %d-entry catalog (basics, conversions, selects, headers, fills, maps, regex, unpacks, '
                'melt/flatten, hash joins and hash set operations on their streamed side, row accessors, progress/clock/cache/wrap, '
                'tee* writers) and random compositions of 2-5 of them, over counting sources (regular and ragged) of 1000 and 10000 rows '
                'sharing their prefix: construction pulls no data row (and no header except for the operators documented to consult it); '
                'for k = 0..8 data rows requested through islice / head / look / lookstr / see / repr, outputs and pull counts are equal for '
                'both lengths, the pull count is minimal up to the operator\'s lookahead constant C (the same pipeline on the source cut '
                'to pulls-1-C rows delivers fewer than k rows), and at most k+C for one-to-one operators. Multi-source operators (cat, stack, '
                'annex): later sources untouched while the first still delivers. Extractors fromcsv/fromtsv/frompickle/fromtext: bytes read '
                'for k rows equal for a 5000- and a 50000-row file and below 64 KiB. Model tie: the Lean transducers mapT/filterT/lookaheadT '
                'run on the same small tables as addfield/select/addfieldusingcontext: same rows, same number of pulls. Non-trivial: k >= 1.'
                % len(catalog(etl)))
    ctx.assumptions += ['generator semantics of CPython (a suspended generator does no work) are the execution model of runLazy; '
                        'the model covers the pull discipline, not the values computed by each operator (those are C04-C20)',
                        'property is claimed partial: only the operators in the catalog are exercised dynamically; the static constructor '
                        'table covers every module listed in translators/ctor_purity.py']
    # constructor read sites regenerated from the source
    try:
        info = ctor_purity.generate()
        ctx.bridge('translator: constructor read sites extracted (%d view classes, %d functions, %d sites)'
                   % (info['classes'], info['functions'], len(info['sites'])), True)
        ctx.extra['ctor_read_sites'] = [list(x) for x in info['sites']]
    except Exception as e:   # noqa
        ctx.bridge('translator: constructor read sites extracted', False, repr(e))
    from translators import streaming
    try:
        info2 = streaming.generate()
        ctx.bridge('translator: wholesale-consumption sites of %d generator functions (%d sites)' % (info2['generators'], len(info2['sites'])), True)
        ctx.extra['materialisation_sites'] = [list(x) for x in info2['sites']]
    except Exception as e:   # noqa
        ctx.bridge('translator: materialisation sites extracted', False, repr(e))
    from translators import pullshape
    try:
        info3 = pullshape.generate()
        ctx.bridge('translator: pull shapes of the generator functions (%d programs, one per function and operand)' % info3['functions'], True)
    except Exception as e:   # noqa
        ctx.bridge('translator: pull shapes extracted', False, repr(e))
    from translators import fingerprints as _fp
    try:
        _fpi = _fp.generate()
        ctx.bridge('translator: fingerprints of the petl sources this check vouches for (%d entries over all properties)' % _fpi['names'], True)
    except Exception as e:   # noqa
        ctx.bridge('translator: source fingerprints extracted', False, repr(e))
    ctx.prove(['PetlProofs.Props.C02', 'PetlProofs.Props.C02Shape', 'PetlProofs.Snapshot.C02'],
              REQUIRED + ['Petl.Snapshot.C02_sources_as_validated', 'Petl.C02.pull_shapes_as_expected', 'Petl.C02.pullshape_selftest', 'Petl.C02.bounded_never_scans_ahead', 'Petl.C02.bounded_functions_never_scan_ahead'])
    rng = ctx.rng
    ops = catalog(etl)
    N1, N2 = 1000, 10000
    ks = list(range(0, 9))
    hows = ['islice', 'head', 'look', 'lookstr', 'see', 'repr', 'islice-twice', 'getitem-slice', 'getitem-slice-step']

    def measure(build, n, seed, ragged, how, k, cls=None):
        s = (cls or Src)(n, seed, ragged)
        try:
            v = build(s)
        except Exception as e:   # noqa
            return s, ('ctor-exc', type(e).__name__, None), (s.hdr_pulls, s.pulls), None
        ctor = (s.hdr_pulls, s.pulls)
        out = consume(etl, v, how, k)
        return s, out, ctor, s.pulls

    def check_pipeline(name, build, C, hdr_ok, seed, ragged, how, k, kind):
        case = {'pipeline': name, 'seed': seed, 'ragged': ragged, 'consumer': how, 'k': k}
        cls = TableSrc if (seed + k) % 2 else SrcBase        # half of the cases: the source is itself a petl Table
        s1, out1, ctor1, p1 = measure(build, N1, seed, ragged, how, k, cls)
        s2, out2, ctor2, p2 = measure(build, N2, seed, ragged, how, k, cls)
        ctx.case((name, seed, ragged, how, k) if k >= 1 else None,
                 sample=dict(case, pulls=p2, out=out2[1][:200]) if k == 3 and len(ctx.samples) < 5 and ctx.evaluations % 97 == 0 else None)
        ctx.count('consumer:' + how)
        ctx.count('kind:' + kind)
        if ctor2[1] or ctor1[1]:
            ctx.spec_fail('%s|construction-reads-rows' % name, '%s: constructing the view pulled %d data rows' % (name, ctor2[1]), case)
            return
        if (ctor2[0] or ctor1[0]) and not hdr_ok:
            ctx.spec_fail('%s|construction-reads-header' % name, '%s: constructing the view read the header' % name, case)
            return
        if out1[0] == 'ctor-exc' or out2[0] == 'ctor-exc':
            ctx.count('ctor-exc:' + name.split(':')[0] + ':' + out2[1])
            return
        if p1 >= N1 and p2 >= N1 and kind != 'one2one':
            ctx.count('short-source-exhausted (selective filter)')
            return
        if p1 != p2:
            ctx.spec_fail('%s|%s|pulls-depend-on-length' % (name, how),
                          '%s via %s: %d rows pulled from the 1000-row source, %d from the 10000-row source for k=%d' % (name, how, p1, p2, k),
                          dict(case, pulls_1000=p1, pulls_10000=p2))
            return
        if out1 != out2:
            ctx.spec_fail('%s|%s|output-depends-on-length' % (name, how), '%s via %s: first %d rows differ between source lengths' % (name, how, k),
                          dict(case, out_100=out1[1][:300], out_10000=out2[1][:300]))
            return
        if out2[0] == 'exc':
            ctx.count('iteration-exc:' + name.split(':')[0] + ':' + out2[1])
            return
        CC = C + CONSUMER_C[how]
        if how == 'repr':
            k = 5
        if how == 'islice-twice':
            if kind == 'one2one' and p2 > 2 * (k + CC):
                ctx.spec_fail('%s|%s|more-than-2(k+C)' % (name, how), '%s: two partial passes of k=%d rows pulled %d rows (allowed %d)' % (name, k, p2, 2 * (k + CC)),
                              dict(case, pulls=p2))
            return
        if kind == 'one2one' and p2 > k + CC:
            ctx.spec_fail('%s|%s|more-than-k+C' % (name, how), '%s via %s: %d rows pulled for k=%d (allowed k+%d)' % (name, how, p2, k, CC),
                          dict(case, pulls=p2))
            return
        # minimality (theorem minimal_prefix): the rows produced while consuming one source row fewer are fewer than k.
        # The shortened source raises instead of ending, so only what the operator emits *while consuming* is counted.
        if p2 >= 1 and how == 'islice' and name not in NO_MIN:
            s3 = cls(p2 - 1, seed, ragged, bomb=True)
            cnt = 0
            try:
                it3 = iter(build(s3))
                for _ in range(k + 1):
                    next(it3)
                    cnt += 1
            except (Bomb, StopIteration):
                pass
            except Exception:   # noqa
                cnt = None
            ctx.count('minimality-checked')
            if cnt is not None and cnt >= k + 1:
                ctx.spec_fail('%s|%s|over-pull' % (name, how),
                              '%s via %s: %d rows pulled for k=%d although the operator already delivers k rows from the first %d source rows'
                              % (name, how, p2, k, p2 - 1), dict(case, pulls=p2, enough=p2 - 1))

    NO_MIN = {'addcolumn', 'annex1'}     # these deliver rows from their other input when the source is shorter
    ONE2ONE = {'cut', 'cut-missing', 'cut-index', 'cutout', 'cat1', 'cat-header', 'stack1', 'addfield-const', 'addfield-fn', 'addfield-index',
               'addfields', 'addrownumbers', 'addcolumn', 'movefield', 'addfieldusingcontext', 'head', 'annex1', 'convert', 'convert-dict',
               'convert-where', 'convert-passrow', 'convert-failonerror-none', 'convertall', 'convertnumbers', 'replace', 'replaceall', 'update',
               'format', 'formatall', 'interpolate', 'interpolateall', 'rename', 'rename-dict', 'setheader', 'extendheader', 'pushheader',
               'prefixheader', 'suffixheader', 'sortheader', 'filldown', 'filldown-c', 'fillright', 'fillleft', 'sub', 'capture', 'split',
               'splitdown', 'unpack', 'unpackdict', 'unpackdict-sampled', 'unpackdict-sampled-no-dict', 'flatten-unflatten', 'fieldmap', 'rowmap', 'rowmapmany', 'melt', 'hashleftjoin', 'hashlookupjoin', 'data',
               'values', 'records', 'dicts', 'namedtuples', 'progress', 'clock', 'cache', 'wrap', 'teecsv', 'teetsv', 'teepickle', 'teetext',
               'teehtml'}
    seeds = [rng.randrange(1000) for _ in range(4 if ctx.thorough() else 1)]
    for name, (build, C, hdr_ok, ragged_ok) in ops.items():
        kind = 'one2one' if name in ONE2ONE else 'filter-like'
        for seed in seeds:
            for ragged in ((False, True) if ragged_ok else (False,)):
                for k in ks:
                    check_pipeline(name, build, C, hdr_ok, seed, ragged, 'islice', k, kind)
                for how in hows[1:]:
                    k = rng.choice([1, 2, 3, 5, 8])
                    check_pipeline(name, build, C, hdr_ok, seed, ragged, how, k, kind)

    # random compositions
    ncomp = 400 if ctx.thorough() else 80
    for ci in range(ncomp):
        cops = chain_ops(etl, rng)
        chain = [rng.choice(cops) for _ in range(rng.choice([2, 3, 4, 5]))]
        names = '>'.join(c[0] for c in chain)
        C = sum(c[2] for c in chain)

        def build(s, chain=chain):
            v = s
            for _, f, _ in chain:
                v = f(v)
            return v
        seed = rng.randrange(1000)
        ragged = False
        for k in rng.sample(ks, 3):
            check_pipeline('chain:' + names, build, C, False, seed, ragged, rng.choice(['islice', 'islice', 'head', 'look']), k, 'chain')
        ctx.count('chain-length:%d' % len(chain))

    # a slice with a stop, run to its end, never reads past `stop` (whatever the step)
    for (a_, b_, st) in ((0, 6, 2), (1, 7, 3), (2, 9, 2), (0, 4, 1)):
        for n in (N1, N2):
            src = TableSrc(n, 1)
            consume(etl, etl.rowslice(src, a_, b_, st), 'islice', 40)
            ctx.case(('rowslice-to-end', a_, b_, st, n))
            ctx.count('rowslice-to-end')
            if src.pulls > b_ + 1:
                ctx.spec_fail('rowslice|reads-past-stop', 'rowslice(start, stop, step) run to its end pulled source rows beyond stop',
                              {'op': 'rowslice(%d, %d, %d)' % (a_, b_, st), 'source_rows': n, 'rows_pulled': src.pulls, 'allowed': b_ + 1})
    # multi-source operators: the later sources are not read while the first still delivers
    for name, mk in [('cat', lambda a, b: etl.cat(a, b)), ('stack', lambda a, b: etl.stack(a, b)),
                     ('annex', lambda a, b: etl.annex(a, b)), ('hashjoin-probe', lambda a, b: etl.hashleftjoin(a, etl.head(b, 30), key='a')),
                     ('addcolumn-lazy', lambda a, b: etl.addcolumn(a, 'z', etl.values(b, 'a'))),
                     ('addcolumn-view', lambda a, b: etl.addcolumn(a, 'z', etl.data(b)))]:
        for k in ks:
            res = []
            for n in (N1, N2):
                a, b = TableSrc(n, 1), TableSrc(n, 2)
                v = mk(a, b)
                ctor = (a.pulls, b.pulls, a.hdr_pulls, b.hdr_pulls)
                out = consume(etl, v, 'islice', k)
                res.append((ctor, out, a.pulls, b.pulls))
            case = {'pipeline': name, 'k': k}
            ctx.case((name, 'multi', k) if k >= 1 else None)
            ctx.count('kind:multi-source')
            (c1, o1, a1, b1), (c2, o2, a2, b2) = res
            if any(c2) or any(c1):
                ctx.spec_fail('%s|construction-reads' % name, '%s: construction read its sources %r' % (name, c2), case)
            elif (a1, b1) != (a2, b2) or o1 != o2:
                ctx.spec_fail('%s|pulls-depend-on-length' % name, '%s: pulls (%d,%d) vs (%d,%d) for k=%d' % (name, a1, b1, a2, b2, k), case)
            else:
                lim = {'cat': (k, 0), 'stack': (k, 0), 'annex': (k, k), 'hashjoin-probe': (k, 30), 'crossjoin': (k + 1, 3),
                       'addcolumn-lazy': (k, k), 'addcolumn-view': (k, k)}[name]
                if a2 > lim[0] or b2 > lim[1]:
                    ctx.spec_fail('%s|more-than-needed' % name, '%s: pulled (%d,%d) rows for k=%d, allowed %r' % (name, a2, b2, k, lim), case)

    # arguments that are not tables by name but may well be lazy views over another source (the values to select, a column to
    # add, a lookup): putting the pipeline together reads none of them either
    for name, mk in [('selectin(values-view)', lambda a, b: etl.selectin(a, 'a', etl.values(b, 'a'))),
                     ('selectnotin(values-view)', lambda a, b: etl.selectnotin(a, 'a', etl.values(b, 'a'))),
                     ('selectin(data-view)', lambda a, b: etl.selectin(a, 'a', etl.data(b))),
                     ('selectcontains(view)', lambda a, b: etl.selectcontains(a, 'b', etl.values(b, 'b'))),
                     ('selecteq(view)', lambda a, b: etl.selecteq(a, 'a', etl.values(b, 'a'))),
                     ('addfield(view)', lambda a, b: etl.addfield(a, 'z', etl.values(b, 'a'))),
                     ('convert(view-valued-dict)', lambda a, b: etl.convert(a, 'a', {1: etl.values(b, 'a')})),
                     ('replace(view)', lambda a, b: etl.replace(a, 'a', 1, etl.values(b, 'a'))),
                     ('update(view)', lambda a, b: etl.update(a, 'a', etl.values(b, 'a'))),
                     ('setheader(view)', None), ('extendheader(view)', None), ('rename(view)', None)]:
        if mk is None:
            continue
        a, b = TableSrc(N1, 1), TableSrc(N1, 2)
        try:
            mk(a, b)
            err = None
        except Exception as e:   # noqa
            err = type(e).__name__
        ctx.case((name, 'ctor-with-view-argument'))
        ctx.count('kind:view-valued-argument')
        if err is None and (a.pulls or b.pulls):
            ctx.spec_fail('%s|construction-reads' % name.split('(')[0], '%s: construction pulled (%d, %d) data rows' % (name, a.pulls, b.pulls),
                          {'pipeline': name, 'pulls': (a.pulls, b.pulls)})

    # asking a binary view for its header only (what fieldnames(), the *all functions, natural joins and record* set
    # operations do while a pipeline is being put together) reads no data row; the hash joins that build their lookup
    # before anything else may read their build side
    BUILD_SIDE_OK = {'hashjoin': (False, True), 'hashleftjoin': (False, True), 'hashrightjoin': (True, False), 'hashlookupjoin': (False, True)}
    for name in ('join', 'leftjoin', 'rightjoin', 'outerjoin', 'antijoin', 'lookupjoin', 'hashjoin', 'hashleftjoin', 'hashrightjoin',
                 'hashantijoin', 'hashlookupjoin', 'complement', 'intersection', 'hashcomplement', 'hashintersection', 'cat', 'stack',
                 'annex', 'mergesort', 'crossjoin'):
        fn = getattr(etl, name)
        for consult in ('header', 'fieldnames', 'convertall', 'natural-join'):
            a, b = TableSrc(N1, 1), TableSrc(N1, 2)
            try:
                v = fn(a, b, key='a') if name.endswith('join') and name != 'crossjoin' or name == 'mergesort' else fn(a, b)
                if consult == 'header':
                    etl.header(v)
                elif consult == 'fieldnames':
                    etl.fieldnames(v)
                elif consult == 'convertall':
                    etl.convertall(v, str)
                else:
                    etl.join(v, [['zz'], [1]])        # no common field: only the headers are compared
                err = None
            except Exception as e:   # noqa
                err = type(e).__name__
            ok_a, ok_b = BUILD_SIDE_OK.get(name, (False, False))
            ctx.case((name, 'header-only', consult))
            ctx.count('kind:header-only-request')
            if err is None and ((a.pulls and not ok_a) or (b.pulls and not ok_b)):
                ctx.spec_fail('%s|header-request-reads-rows' % name,
                              '%s: %s on the view pulled (%d, %d) data rows from its inputs' % (name, consult, a.pulls, b.pulls),
                              {'pipeline': name, 'consult': consult, 'pulls': (a.pulls, b.pulls)})

    # tie of the pull-shape IR to the running code: for every catalogued operator whose iterator is one of the translated
    # generator functions with a derived bound k, the real interleaving of source pulls and delivered rows stays within k
    import re as _re
    shapes = {}
    try:
        txt = open(os.path.join(lean.LEAN_DIR, 'PetlProofs', 'Props', 'C02Shape.lean')).read()
        for m in _re.finditer(r'\("([^"]+)", (none|some (-?\d+)), (true|false)\)', txt):
            shapes[m.group(1)] = None if m.group(2) == 'none' else int(m.group(3))
    except Exception:   # noqa
        pass
    tied = 0
    for name, (build, C, hdr_ok, ragged_ok) in ops.items():
        s = Src(40, 3, False)
        try:
            it = iter(build(s))
        except Exception:   # noqa
            continue
        code = getattr(it, 'gi_code', None)
        if code is None or '/petl/' not in code.co_filename:
            continue
        fq = code.co_filename.split('/petl/')[-1][:-3].replace('/', '.') + '.' + getattr(code, 'co_qualname', code.co_name)
        k = shapes.get(fq)
        ctx.count('shape-tie:%s' % ('bounded' if k is not None else ('unbounded' if fq in shapes else 'not-translated')))
        if k is None:
            continue
        worst, got = None, 0
        try:
            for _row in it:
                got += 1
                lag = s.hdr_pulls + s.pulls - got
                if worst is None or lag > worst[0]:
                    worst = (lag, got)
                if got >= 30:
                    break
        except Exception:   # noqa
            pass
        tied += 1
        ctx.case(('shape-tie', name))
        if worst is not None and worst[0] > k:
            ctx.corr_fail('pull-shape', 'the running generator reads further ahead than the bound derived from its translated shape',
                          {'pipeline': name, 'function': fq, 'bound': k, 'lag': worst[0], 'at_output_row': worst[1]})
    ctx.extra['pull_shape_tie'] = {'operators_tied': tied, 'functions_with_bound': sum(1 for v in shapes.values() if v is not None), 'functions': len(shapes)}

    # grouping operators told that the input is sorted stream group by group — and within a group row by row when the mapper does
    for name, mk, lim in (
            ('rowgroupmap(presorted, one group)', lambda s: etl.rowgroupmap(etl.addfield(s, 'g', 0), 'g', lambda k, rows: ((r[0], r[1]) for r in rows), header=['a', 'b'], presorted=True), 3),
            ('rowgroupmap(presorted, groups of 2)', lambda s: etl.rowgroupmap(etl.addfield(s, 'g', lambda r: r[0] // 2), 'g', lambda k, rows: ((r[0],) for r in rows), header=['a'], presorted=True), 4),
            ('aggregate(presorted, groups of 2)', lambda s: etl.aggregate(etl.addfield(s, 'g', lambda r: r[0] // 2), 'g', len, presorted=True), 4)):
        for k in (1, 3, 6):
            res = []
            for n in (N1, N2):
                a = TableSrc(n, 11, False, row=lambda i: (i, 'x-%d' % i, i * 2))
                out = consume(etl, mk(a), 'islice', k)
                res.append((out, a.pulls))
            ctx.case((name, 'presorted-groups', k))
            ctx.count('kind:presorted-groups')
            if res[0] != res[1] or res[1][1] > 2 * k + lim:
                ctx.spec_fail('%s|pulls-depend-on-length' % name.split('(')[0], '%s: %d rows requested, %d pulls from %d rows and %d pulls from %d rows (allowed 2k+%d)'
                              % (name, k, res[0][1], N1, res[1][1], N2, lim), {'pipeline': name, 'k': k})
    # pass-through views with a batch size: consuming more rows than one batch must not make them measure the whole source
    for name, mk in (('progress', lambda s: etl.progress(s, 1000, out=open(os.devnull, 'w'))), ('progress(batch=10)', lambda s: etl.progress(s, 10, out=open(os.devnull, 'w'))),
                     ('log_progress', lambda s: etl.log_progress(s, 1000, logger=__import__('logging').getLogger('petl_c02_null'))),
                     ('clock', lambda s: etl.clock(s)), ('progress(wrap)', lambda s: etl.progress(etl.wrap(s), 1000, out=open(os.devnull, 'w'))),
                     ('progress(cut)', lambda s: etl.progress(etl.cut(s, 'a', 'b'), 1000, out=open(os.devnull, 'w')))):
        for k in (1001, 2050):
            res = []
            for n in (3000, 9000):
                a = TableSrc(n, 5)
                out = consume(etl, mk(a), 'islice', k)
                res.append((out, a.pulls, a.opens))
            ctx.case((name, 'beyond-a-batch', k))
            ctx.count('kind:beyond-a-batch')
            if res[0] != res[1] or res[1][1] > k + 1 or res[1][2] > 1:
                ctx.spec_fail('%s|pulls-depend-on-length' % name.split('(')[0], '%s: %d rows requested, (pulls, passes) = %r for 3000 rows and %r for 9000 rows'
                              % (name, k, res[0][1:], res[1][1:]), {'pipeline': name, 'k': k})
    # extractors over a member of a zip archive: the bytes read from the archive for k rows do not depend on the member's length
    import zipfile as _zip
    class _CountingFile(io.BytesIO):
        def __init__(self, data):
            io.BytesIO.__init__(self, data)
            self.nread = 0
        def read(self, *a):
            r = io.BytesIO.read(self, *a)
            self.nread += len(r)
            return r
    def _zipped(nrows):
        buf = io.BytesIO()
        with _zip.ZipFile(buf, 'w', _zip.ZIP_STORED) as z:
            z.writestr('t.csv', 'a,b,c\n' + ''.join('%d,x-%d,%d\n' % (i, i % 7, i * 3) for i in range(nrows)))
        return buf.getvalue()
    try:
        z1, z2 = _zipped(20000), _zipped(200000)
        for k in (1, 5):
            got = []
            for data in (z1, z2):
                cf = _CountingFile(data)
                v = etl.fromcsv(etl.ZipSource(cf, 't.csv'))
                out = consume(etl, v, 'islice', k)
                got.append((out, cf.nread))
            ctx.case(('fromcsv(ZipSource)', k))
            ctx.count('kind:extractor-zip')
            if got[0][0] != got[1][0] or got[1][1] > got[0][1] + 65536 or got[1][1] > 400000:
                ctx.spec_fail('fromcsv|zip|bytes-depend-on-length', 'fromcsv over a zip member: %d vs %d bytes read from the archive for k=%d' % (got[0][1], got[1][1], k),
                              {'extractor': 'fromcsv(ZipSource)', 'k': k, 'bytes': (got[0][1], got[1][1])})
    except Exception as e:   # noqa
        ctx.corr_fail('zip-extractor', 'could not measure the zip extractor: %r' % e, {})
    # extractors: bytes read for k rows do not depend on the file length
    def files(n):
        rows = [source_row(7, i, False) for i in range(n)]
        csvb = ('a,b,c\n' + ''.join('%s,%s,%s\n' % r for r in rows)).encode()
        tsvb = csvb.replace(b',', b'\t')
        pk = io.BytesIO()
        pickle.dump(HDR, pk, -1)
        for r in rows:
            pickle.dump(r, pk, -1)
        return {'fromcsv': csvb, 'fromtsv': tsvb, 'fromtext': csvb, 'frompickle': pk.getvalue()}
    f1, f2 = files(5000), files(50000)
    for fname in ('fromcsv', 'fromtsv', 'fromtext', 'frompickle'):
        for k in ks:
            got = []
            for data in (f1[fname], f2[fname]):
                bs = BytesSrc(data)
                v = getattr(etl, fname)(bs)
                ctor = (bs.opens, bs.maxpos)
                out = consume(etl, v, 'islice', k)
                got.append((ctor, out, bs.maxpos))
            case = {'extractor': fname, 'k': k}
            ctx.case((fname, k) if k >= 1 else None)
            ctx.count('kind:extractor')
            (c1, o1, m1), (c2, o2, m2) = got
            if c1 != (0, 0) or c2 != (0, 0):
                ctx.spec_fail('%s|construction-opens-file' % fname, '%s: the file was opened/read at construction' % fname, case)
            elif o1 != o2 or m1 != m2:
                ctx.spec_fail('%s|bytes-depend-on-length' % fname, '%s: %d vs %d bytes read for k=%d' % (fname, m1, m2, k), dict(case, bytes=(m1, m2)))
            elif m2 > 65536:
                ctx.spec_fail('%s|reads-too-much' % fname, '%s: %d bytes read for k=%d' % (fname, m2, k), case)

    # model tie: Lean transducers against the real operators, rows and pulls
    pool = [0, 1, 2, None, '', 'a', 3.5, (), (1,)]
    ntie = 600 if ctx.thorough() else 150
    lines, meta = [], []
    for ci in range(ntie):
        n = rng.choice([0, 1, 2, 3, 4, 6, 8])
        rows = [tuple(rng.choice(pool) for _ in range(2)) for _ in range(n)]
        hdr = ('f', 'g')
        j = rng.randrange(0, n + 3)        # items requested from the real view (header included)
        for kind in ('map', 'filter', 'look'):
            src = ListSrc([hdr] + rows)
            if kind == 'map':
                v = etl.addfield(src, 'z', lambda r: r[0])
            elif kind == 'filter':
                v = etl.select(src, lambda r: r[0])
            else:
                v = etl.addfieldusingcontext(src, 'z', lambda p, c, nx: (p[0] if p is not None else None, nx[0] if nx is not None else None))
            try:
                out = list(islice(iter(v), j))
            except Exception as e:   # noqa
                out = None
            if kind == 'look':
                if j == 0:
                    continue
                real = '%d %s' % (src.total, proto.enc_table([tuple(r) for r in ([out[0][:-1]] + out[1:])])) if out is not None else 'EXC'
                lines.append('lazy look %d %s' % (j, proto.enc_table([hdr] + rows)))
            else:
                if j == 0:
                    continue
                real = '%d %s' % (src.total - 1, proto.enc_table([tuple(r) for r in out[1:]])) if out is not None else 'EXC'
                lines.append('lazy %s %d %s' % (kind, j - 1, proto.enc_table(rows)))
            meta.append((kind, j, rows, real))
    outs = lean.run_driver(lines)
    for (kind, j, rows, real), got in zip(meta, outs):
        ctx.case(('tie', kind, j, repr(rows)) if j >= 2 and len(rows) >= 2 else None)
        ctx.count('tie:' + kind)
        ok = (got.strip() == real)
        ctx.exact(ok, {'kind': kind, 'items': j, 'rows': repr(rows), 'real': real, 'model': got})
        if not ok:
            ctx.corr_fail('lazy ' + kind, 'model and implementation differ in rows or pull count', {'kind': kind, 'items': j, 'rows': repr(rows), 'real': real, 'model': got})
