"""Line protocol between the harness and the Lean driver (see lean/Petl/Proto.lean)."""
from fractions import Fraction
from decimal import Decimal
import datetime as _dt

_EPOCH = _dt.datetime.min


class Unencodable(Exception):
    pass


def _cps(seq):
    return '.'.join(str(c) for c in seq)


def enc(v):
    """Python value -> protocol tokens (a single string, space separated)."""
    if v is None:
        return 'N'
    if v is True:
        return 'Q1/1:b'
    if v is False:
        return 'Q0/1:b'
    t = type(v)
    if t is int:
        return 'Q%d/1:i' % v
    if t is float:
        if v != v:
            raise Unencodable('nan')
        if v in (float('inf'), float('-inf')):
            return 'I+:f' if v > 0 else 'I-:f'
        n, d = v.as_integer_ratio()
        return 'Q%d/%d:f' % (n, d)
    if t is Decimal:
        if v.is_nan():
            raise Unencodable('nan')
        if v.is_infinite():
            return 'I+:d' if v > 0 else 'I-:d'
        f = Fraction(v)
        return 'Q%d/%d:d' % (f.numerator, f.denominator)
    if t is str:
        return 'S' + _cps(ord(c) for c in v)
    if t is bytes:
        return 'B' + _cps(v)
    if t is _dt.datetime:
        if v.tzinfo is not None:
            raise Unencodable('aware datetime')
        return 'T%d' % ((v - _EPOCH) // _dt.timedelta(microseconds=1))
    if t is _dt.date:
        return 'D%d' % v.toordinal()
    if t is _dt.time:
        if v.tzinfo is not None:
            raise Unencodable('aware time')
        return 'M%d' % (((v.hour * 60 + v.minute) * 60 + v.second) * 1000000 + v.microsecond)
    if t is list:
        return ' '.join(['L%d' % len(v)] + [enc(x) for x in v])
    if t is tuple or isinstance(v, tuple):
        return ' '.join(['U%d' % len(v)] + [enc(x) for x in v])
    if isinstance(v, BaseException):
        return enc('EXC:' + type(v).__name__)
    raise Unencodable(repr(t))


def enc_row(row):
    try:
        row = list(row)
    except TypeError:
        raise Unencodable('a row that is not a sequence: %r' % (row,))
    return ' '.join(['R%d' % len(row)] + [enc(x) for x in row])


def enc_table(tbl):
    rows = [enc_row(r) for r in tbl]
    return ' '.join(['TB%d' % len(rows)] + rows)


def enc_bool(b):
    return '1' if b else '0'


def enc_opt(n):
    return '-' if n is None else str(n)


def enc_list(xs, f=str):
    xs = list(xs)
    return ' '.join([str(len(xs))] + [f(x) for x in xs])


# ---- parsing model output back into a structure of token strings ----------

def _take_val(toks, i):
    """return (string of the value's tokens, next index)"""
    t = toks[i]
    if t[0] in 'LU':
        n = int(t[1:])
        parts = [t]
        i += 1
        for _ in range(n):
            s, i = _take_val(toks, i)
            parts.append(s)
        return ' '.join(parts), i
    return t, i + 1


def _take_row(toks, i):
    t = toks[i]
    assert t[0] == 'R', t
    n = int(t[1:])
    i += 1
    cells = []
    for _ in range(n):
        s, i = _take_val(toks, i)
        cells.append(s)
    return tuple(cells), i


def _take_table(toks, i):
    t = toks[i]
    assert t.startswith('TB'), t
    n = int(t[2:])
    i += 1
    rows = []
    for _ in range(n):
        r, i = _take_row(toks, i)
        rows.append(r)
    return rows, i


def parse_tables(line):
    """parse a line consisting of one or more tables -> list of tables of rows of cell-strings"""
    toks = line.split()
    i = 0
    out = []
    while i < len(toks):
        tb, i = _take_table(toks, i)
        out.append(tb)
    return out


def parse_table(line):
    tbs = parse_tables(line)
    assert len(tbs) == 1, line
    return tbs[0]


def rows_of(tbl):
    """real table (iterable of rows) -> list of rows of cell-strings, same shape as parse_table"""
    return [tuple(enc(x) for x in r) for r in tbl]
