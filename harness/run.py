#!/usr/bin/env python
"""Entry point:  /venv/bin/python harness/run.py check <id> --tier quick|thorough
                 /venv/bin/python harness/run.py replay <file>
"""
import os, sys, argparse, importlib, json, traceback

HERE = os.path.dirname(os.path.abspath(__file__))
VERIF = os.path.dirname(HERE)
sys.path.insert(0, VERIF)
REPO = os.environ.get('PETL_REPO', '/repo')
if REPO != '/repo' or True:
    # make sure the working tree under test is the one imported
    sys.path.insert(0, REPO)
os.environ.setdefault('PETL_VERIF', '1')


def main():
    ap = argparse.ArgumentParser()
    sub = ap.add_subparsers(dest='cmd')
    c = sub.add_parser('check')
    c.add_argument('pid')
    c.add_argument('--tier', default=os.environ.get('VERIF_TIER', 'quick'))
    r = sub.add_parser('replay')
    r.add_argument('path')
    sub.add_parser('setup')
    sub.add_parser('gen')
    a = ap.parse_args()
    if a.cmd in ('setup', 'gen'):
        from translators import run_all
        for name, res in run_all():
            print('translator', name, res)
        if a.cmd == 'setup':
            from harness import lean
            ok, log = lean.build([])
            print(log[-3000:])
            sys.exit(0 if ok else 1)
        sys.exit(0)
    if a.cmd == 'check':
        from harness.core import Ctx
        seed = int(os.environ.get('VERIF_SEED', '0') or 0)
        ctx = Ctx(a.pid, a.tier, seed)
        mod = importlib.import_module('harness.props.' + a.pid.lower())
        try:
            mod.run(ctx)
        except Exception:
            tb = traceback.format_exc()
            sys.stderr.write(tb)
            print('harness error in %s: %s' % (a.pid, tb.strip().split('\n')[-1]))
            sys.exit(2)
        # a broken obligation or correspondence without a failing input: before reporting `no-failing-input-found`,
        # search further (same generators, other seeds; dynamic part only). Costs nothing on a tree where everything checks.
        from harness.core import load_known
        open_sigs = {k['signature'] for k in load_known().get('open', []) if k.get('property') == a.pid}
        unlisted = lambda c: [f for f in c.spec_failures if f['sig'] not in open_sigs]
        if (ctx.proof_failures or ctx.corr_failures) and not unlisted(ctx) and os.environ.get('VERIF_EXTENDED_SEARCH', '1') != '0':
            tried = []
            for k in (1, 2, 3):
                c2 = Ctx(a.pid, a.tier, seed + 7919 * k)
                c2.search_only = True
                try:
                    mod.run(c2)
                except Exception:
                    break
                tried.append(c2.seed)
                ctx.evaluations += c2.evaluations
                ctx.nontrivial |= c2.nontrivial
                if unlisted(c2):
                    for f in unlisted(c2):
                        f['seed'] = c2.seed
                        ctx.spec_failures.append(f)
                    break
            ctx.notes.append('extended failing-input search after a broken obligation: seeds %s' % tried)
        sys.exit(ctx.finish())
    elif a.cmd == 'replay':
        # re-run the check that produced the replay file with the same seed and tier, and report whether the recorded
        # failure (same signature; for a broken tie: the same obligation) shows up again on the current tree
        d = json.load(open(a.path))
        from harness.core import Ctx
        pid = d['property']
        ctx = Ctx(pid, d.get('tier', 'quick'), int(d.get('seed', 0) or 0))
        mod = importlib.import_module('harness.props.' + pid.lower())
        print('replaying %s (%s, seed %s): %s' % (pid, ctx.tier, ctx.seed, d.get('what') or d.get('note', '')))
        if d.get('case') is not None:
            print('recorded case:', json.dumps(d['case'], default=repr)[:2000])
        mod.run(ctx)
        if d.get('kind') == 'input':
            hit = [f for f in ctx.spec_failures if f['sig'] == d.get('signature')]
            if hit:
                print('REPRODUCED: %s [%s]' % (hit[0]['what'], hit[0]['sig']))
                print('case now:', json.dumps(hit[0]['case'], default=repr)[:2000])
                sys.exit(1)
            print('not reproduced on the current tree (signature %s did not occur)' % d.get('signature'))
            sys.exit(0)
        names = {b['name'] for b in d.get('broken_obligations', [])}
        still = [n for n, _ in ctx.proof_failures if n in names] + (['correspondence'] if ctx.corr_failures and d.get('broken_correspondence') else [])
        if still:
            print('REPRODUCED: still broken: %s' % ', '.join(still))
            sys.exit(1)
        print('not reproduced on the current tree')
        sys.exit(0)
    else:
        ap.print_help()
        sys.exit(2)


if __name__ == '__main__':
    main()
