#!/usr/bin/env python
"""Entry point:  /venv/bin/python harness/run.py check <id> --tier quick|thorough
                 /venv/bin/python harness/run.py replay <file>
"""
import os, sys, argparse, importlib, json, traceback

HERE = os.path.dirname(os.path.abspath(__file__))
VERIF = os.path.dirname(HERE)
sys.path.insert(0, VERIF)
REPO = os.environ.get('PETL_REPO', '/repo')
if REPO != '/repo' or True:
    # make sure the working tree under test is the one imported
    sys.path.insert(0, REPO)
os.environ.setdefault('PETL_VERIF', '1')


def main():
    ap = argparse.ArgumentParser()
    sub = ap.add_subparsers(dest='cmd')
    c = sub.add_parser('check')
    c.add_argument('pid')
    c.add_argument('--tier', default=os.environ.get('VERIF_TIER', 'quick'))
    r = sub.add_parser('replay')
    r.add_argument('path')
    sub.add_parser('setup')
    sub.add_parser('gen')
    a = ap.parse_args()
    if a.cmd in ('setup', 'gen'):
        from translators import run_all
        for name, res in run_all():
            print('translator', name, res)
        if a.cmd == 'setup':
            from harness import lean
            ok, log = lean.build([])
            print(log[-3000:])
            sys.exit(0 if ok else 1)
        sys.exit(0)
    if a.cmd == 'check':
        from harness.core import Ctx
        seed = int(os.environ.get('VERIF_SEED', '0') or 0)
        ctx = Ctx(a.pid, a.tier, seed)
        mod = importlib.import_module('harness.props.' + a.pid.lower())
        try:
            mod.run(ctx)
        except Exception:
            tb = traceback.format_exc()
            sys.stderr.write(tb)
            print('harness error in %s: %s' % (a.pid, tb.strip().split('\n')[-1]))
            sys.exit(2)
        sys.exit(ctx.finish())
    elif a.cmd == 'replay':
        d = json.load(open(a.path))
        mod = importlib.import_module('harness.props.' + d['property'].lower())
        sys.exit(mod.replay(d))
    else:
        ap.print_help()
        sys.exit(2)


if __name__ == '__main__':
    main()
