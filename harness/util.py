"""Shared helpers for running the real petl and coding results for comparison with the model."""
from . import proto


def errkind(e):
    n = type(e).__name__
    return {
        'FieldSelectionError': 'FieldSelection', 'DuplicateKeyError': 'DuplicateKey', 'TypeError': 'Type',
        'StopIteration': 'StopIteration', 'RuntimeError': 'Runtime', 'IndexError': 'Index',
        'AssertionError': 'Assertion', 'ArgumentError': 'Arg', 'ValueError': 'Value', 'KeyError': 'Key',
    }.get(n, n)


def collect(view):
    """iterate a view; returns (rows, errkind or None)"""
    rows = []
    try:
        for r in view:
            rows.append(r)
    except Exception as e:    # noqa
        return rows, errkind(e)
    return rows, None


def show_out(rows, err=None):
    try:
        s = proto.enc_table(rows)
    except proto.Unencodable as e:
        return 'UNENCODABLE ' + str(e)
    return s if err is None else s + ' ERR ' + err


def run_show(thunk):
    """build and iterate a view inside one try: construction-time errors are reported like iteration-time ones"""
    try:
        v = thunk()
    except Exception as e:   # noqa
        return 'TB0 ERR ' + errkind(e)
    return show_out(*collect(v))


def enc_fspec(s):
    if isinstance(s, bool):
        raise proto.Unencodable('bool field spec')
    if isinstance(s, int):
        if s < 0:
            raise proto.Unencodable('negative index spec')
        return '#%d' % s
    if isinstance(s, str):
        return proto.enc(s)
    raise proto.Unencodable('field spec %r' % (s,))


def enc_key(key):
    if key is None:
        return 'KN'
    if not isinstance(key, (list, tuple)):
        key = (key,)
    return ' '.join(['K%d' % len(key)] + [enc_fspec(s) for s in key])


def rand_key(rng, hdr, allow_none=True, compound=0.3, by_index=0.25):
    """a key spec valid for hdr: None, a field name, an index, or a compound of them"""
    w = len(hdr)
    r = rng.random()
    if allow_none and r < 0.15:
        return None

    def one(j):
        # refer to a duplicated field name by index (a name selects the first duplicate)
        if rng.random() < by_index or hdr.index(hdr[j]) != j:
            return j
        return hdr[j]
    if w >= 2 and rng.random() < compound:
        k = rng.choice([2, 2, min(3, w)])
        js = rng.sample(range(w), k)
        spec = [one(j) for j in js]
        return tuple(spec) if rng.random() < 0.5 else spec
    return one(rng.randrange(w))


def shrink_table(tbl, still_fails, maxsteps=200):
    """greedy row/column dropping while `still_fails(tbl)` holds"""
    steps = 0
    changed = True
    while changed and steps < maxsteps:
        changed = False
        for i in range(len(tbl) - 1, 0, -1):
            cand = tbl[:i] + tbl[i + 1:]
            steps += 1
            try:
                if still_fails(cand):
                    tbl = cand
                    changed = True
            except Exception:   # noqa
                pass
            if steps >= maxsteps:
                break
    return tbl
