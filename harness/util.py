"""Shared helpers for running the real petl and coding results for comparison with the model."""
from . import proto


def errkind(e):
    n = type(e).__name__
    return {
        'FieldSelectionError': 'FieldSelection', 'DuplicateKeyError': 'DuplicateKey', 'TypeError': 'Type',
        'StopIteration': 'StopIteration', 'RuntimeError': 'Runtime', 'IndexError': 'Index',
        'AssertionError': 'Assertion', 'ArgumentError': 'Arg', 'ValueError': 'Value', 'KeyError': 'Key',
    }.get(n, n)


def collect(view):
    """iterate a view; returns (rows, errkind or None)"""
    rows = []
    try:
        for r in view:
            rows.append(r)
    except Exception as e:    # noqa
        return rows, errkind(e)
    return rows, None


def show_out(rows, err=None):
    try:
        s = proto.enc_table(rows)
    except proto.Unencodable as e:
        # values the protocol has no code for: the Python repr (types visible), good enough to compare two real outputs
        return 'UNENCODABLE %s: %r%s' % (e, [tuple(r) if isinstance(r, (list, tuple)) else r for r in rows], '' if err is None else ' ERR ' + err)
    return s if err is None else s + ' ERR ' + err


def run_show(thunk):
    """build and iterate a view inside one try: construction-time errors are reported like iteration-time ones"""
    try:
        v = thunk()
    except Exception as e:   # noqa
        return 'TB0 ERR ' + errkind(e)
    return show_out(*collect(v))


def run_show_typed(thunk):
    """run_show plus the types of the delivered rows (a strategy argument must not turn a tuple row into the source's own list)"""
    try:
        v = thunk()
    except Exception as e:   # noqa
        return 'TB0 ERR ' + errkind(e)
    rows, err = collect(v)
    return show_out(rows, err) + ' |rowtypes ' + ','.join(sorted({type(r).__name__ for r in rows}))


def enc_fspec(s):
    if isinstance(s, bool):
        raise proto.Unencodable('bool field spec')
    if isinstance(s, int):
        if s < 0:
            raise proto.Unencodable('negative index spec')
        return '#%d' % s
    if isinstance(s, str):
        return proto.enc(s)
    raise proto.Unencodable('field spec %r' % (s,))


def enc_key(key):
    if key is None:
        return 'KN'
    if not isinstance(key, (list, tuple)):
        key = (key,)
    return ' '.join(['K%d' % len(key)] + [enc_fspec(s) for s in key])


def rand_key(rng, hdr, allow_none=True, compound=0.3, by_index=0.25):
    """a key spec valid for hdr: None, a field name, an index, or a compound of them"""
    w = len(hdr)
    r = rng.random()
    if allow_none and r < 0.15:
        return None

    def one(j):
        # refer to a duplicated field name by index (a name selects the first duplicate)
        if rng.random() < by_index or hdr.index(hdr[j]) != j:
            return j
        return hdr[j]
    if w >= 2 and rng.random() < compound:
        k = rng.choice([2, 2, min(3, w)])
        js = rng.sample(range(w), k)
        spec = [one(j) for j in js]
        return tuple(spec) if rng.random() < 0.5 else spec
    return one(rng.randrange(w))


def shrink_table(tbl, still_fails, maxsteps=200):
    """greedy row/column dropping while `still_fails(tbl)` holds"""
    steps = 0
    changed = True
    while changed and steps < maxsteps:
        changed = False
        for i in range(len(tbl) - 1, 0, -1):
            cand = tbl[:i] + tbl[i + 1:]
            steps += 1
            try:
                if still_fails(cand):
                    tbl = cand
                    changed = True
            except Exception:   # noqa
                pass
            if steps >= maxsteps:
                break
    return tbl


def many_chunk_cases(etl, rng, ctx, prefix, thorough=False):
    """sorts that spill into hundreds of chunk files: thresholds such as a merge fan-in or a limit on open files are out
    of reach of 8-row tables.  Reference: the in-memory sort of the same table (and Python's stable sorted with Comparable
    keys); both directions, first pass and the pass served from the chunk-file cache, petl.config.sort_buffersize as the
    source of the buffer size."""
    import petl.config as config
    from petl.comparison import Comparable
    keys = [None, 1, 2, 'a', (1, 'x'), 2.5]
    sizes = [(260, 1), (530, 2), (1100, 1)] if not thorough else [(260, 1), (530, 2), (900, 3), (1200, 1), (2300, 2)]
    # the last entry of `sizes` is run a second time with this process's soft limit on open files lowered to just above what the
    # sort needs: a guard against "too many open files" must not change the result
    import resource
    soft0, hard0 = resource.getrlimit(resource.RLIMIT_NOFILE)
    for n, bs, low in [(a, b, False) for a, b in sizes] + [(sizes[1][0] * 2, 1, True)]:
        if low:
            try:
                resource.setrlimit(resource.RLIMIT_NOFILE, (min(hard0, 2 * n - 200) if hard0 > 0 else 2 * n - 200, hard0))
            except Exception:   # noqa
                continue
        rows = [[rng.choice(keys), i] for i in range(n)]
        T = [['k', 'i']] + rows
        for rev in (False, True):
            want = [('k', 'i')] + [tuple(r) for r in sorted(rows, key=lambda r: Comparable(r[0]), reverse=rev)]
            for how in ('arg', 'config'):
                saved = config.sort_buffersize
                try:
                    if how == 'config':
                        config.sort_buffersize = bs
                        v = etl.sort(T, 'k', reverse=rev)
                    else:
                        v = etl.sort(T, 'k', reverse=rev, buffersize=bs)
                    for pno in (1, 2):
                        try:
                            got = list(v)
                        except Exception as e:   # noqa
                            got = 'ERR ' + type(e).__name__
                        ctx.case((prefix, 'many-chunks', n, bs, rev, how, pno))
                        ctx.count('many-chunks')
                        if got != want:
                            bad = None
                            if isinstance(got, list):
                                bad = next((j for j, (a, b) in enumerate(zip(got, want)) if a != b), min(len(got), len(want)))
                            ctx.spec_fail('%s|many-chunks|%s' % (prefix, 'reverse' if rev else 'forward'),
                                          'sort of %d rows in chunks of %d (%s, reverse=%s, pass %d) differs from the in-memory stable sort'
                                          % (n, bs, 'config.sort_buffersize' if how == 'config' else 'buffersize=', rev, pno),
                                          {'nrows': n, 'buffersize': bs, 'reverse': rev, 'buffer_from': how, 'pass': pno,
                                           'first_bad_row': bad, 'got_len': len(got) if isinstance(got, list) else got,
                                           'table': 'rows [choice(%r), i] for i in range(%d), seed-dependent' % (keys, n)})
                            break
                finally:
                    config.sort_buffersize = saved
        if low:
            resource.setrlimit(resource.RLIMIT_NOFILE, (soft0, hard0))


def view_operand_cases(etl, rng, ctx, ops, ncases, header=('x', 'xy', 'v'), pools=None):
    """Operands that are themselves views — sort views (ascending / descending, by the key, by another field whose name starts
    with the key's, by no key, cached or not) must be treated like the tables they stand for:
    op(view) delivers what op(list(view)) delivers.  `ops`: (name, arity, call(*tables)).  No model involved."""
    from . import gen
    hdr = list(header)
    pools = pools or [[1, 2, 3, None], ['a', 'b', 'ab', None], [0, 1, 5]]
    for ci in range(ncases):
        tabs = []
        for _ in range(2):
            n = rng.choice([0, 1, 2, 3, 4, 5])
            tabs.append([hdr] + [[rng.choice(pools[j]) for j in range(len(hdr))] for _ in range(n)])
        name, arity, call = ops[ci % len(ops)]
        pos = rng.randrange(arity)
        key = rng.choice([hdr[0], hdr[1], tuple(hdr[:2]), None, hdr[2], tuple(hdr[:2]), (hdr[1], hdr[0]), (hdr[2], hdr[0]), (hdr[2], hdr[1])])
        rev = rng.random() < 0.6
        kw = rng.choice([{}, {'buffersize': 2}, {'cache': False}])
        present = 'sort(%r, reverse=%r, %r)' % (key, rev, kw)
        try:
            if ci % 3 == 2:
                # other views an operand may be: a table squared up with its own `missing`, a wrapped table, a slice
                src = [list(r) for r in tabs[pos]]
                if len(src) > 1 and rng.random() < 0.7:
                    j = rng.randrange(1, len(src))
                    src[j] = src[j][:rng.randrange(0, len(hdr))]           # a short row
                kind = rng.choice(['stack(missing)', 'cat(missing)', 'stack(stack)', 'wrap', 'rowslice', 'cache', 'addfield-cutout'])
                view = {'stack(missing)': lambda: etl.stack(src, missing='x'), 'cat(missing)': lambda: etl.cat(src, missing='x'),
                        'stack(stack)': lambda: etl.stack(etl.stack(src, missing='x'), missing='y'), 'wrap': lambda: etl.wrap(src),
                        'rowslice': lambda: etl.rowslice(src, 0, None), 'cache': lambda: etl.wrap(src).cache(),
                        'addfield-cutout': lambda: etl.cutout(etl.addfield(src, 'zz', 1), 'zz')}[kind]()
                present = kind + ' over ' + repr(src)
            else:
                view = etl.sort(tabs[pos], key, reverse=rev, **kw)
            mat = [tuple(r) for r in view]
        except Exception:   # noqa
            continue
        operands_v = [view if i == pos else tabs[i] for i in range(arity)]
        operands_m = [mat if i == pos else tabs[i] for i in range(arity)]
        got = run_show(lambda: call(*operands_v))
        want = run_show(lambda: call(*operands_m))
        ctx.case(('view-operand', name, repr(tabs[:arity]), pos, repr(key), rev))
        ctx.count('view-operand')
        if got != want:
            ctx.spec_fail('%s|sort-view-operand' % name,
                          '%s treats an operand that is a sort view differently from the table the view stands for' % name,
                          {'op': name, 'tables': repr(tabs[:arity]), 'operand': pos, 'presented as': present,
                           'with the view': got, 'with the materialised view': want})


# ---- key values of types the Lean value domain does not have, but which petl orders consistently: members of a str-based
# Enum (equal to, and ordered like, plain strings), an int subclass, Fractions that equal no int or float.  No model
# involved: the oracles are the relational definitions, computed with Python's own == .
import enum as _enum


class Colour(str, _enum.Enum):      # module level: rows holding these go through pickle in chunked sorts
    a = 'a'
    b = 'b'


class MyInt(int):
    pass


def _exotic_pool():
    from fractions import Fraction as F
    return [1, 2, 3, MyInt(2), F(1, 3), F(7, 3), F(10, 3), 'a', 'b', Colour.a, Colour.b, None]


def exotic_key_cases(etl, rng, ctx, pid, ncases):
    from collections import Counter
    from petl.comparison import Comparable
    pool = _exotic_pool()
    for ci in range(ncases):
        sub = rng.sample(pool, rng.choice([3, 4, 5]))
        A = [['k', 'v']] + [[rng.choice(sub), i] for i in range(rng.choice([2, 3, 5, 6]))]
        if pid == 'C05' and ci % 3 == 0:
            # cells that support the buffer protocol without being bytes: what comes back from a chunk file is what went in
            import array as _array
            A = [['k', 'v']] + [[r[0], rng.choice([bytearray(b'ab'), b'ab', _array.array('i', [1, 2]), bytearray()])] for r in A[1:]]
        B = [['k', 'w']] + [[rng.choice(sub), 10 + i] for i in range(rng.choice([1, 2, 4]))]
        case = {'A': repr(A), 'B': repr(B)}
        ctx.case(('exotic-keys', pid, repr(A), repr(B)))
        ctx.count('exotic-keys')
        try:
            if pid == 'C05':
                outs = [[tuple(r) for r in etl.sort(A, 'k', buffersize=bs, reverse=rev)] for rev in (False, True) for bs in (None, 1, 2)]
                for rev, group in ((False, outs[:3]), (True, outs[3:])):
                    ok = all(repr(o) == repr(group[0]) for o in group) and sorted(map(repr, group[0][1:])) == sorted(repr(tuple(r)) for r in A[1:]) and \
                        all(not (Comparable(y[0]) < Comparable(x[0]) if not rev else Comparable(x[0]) < Comparable(y[0]))
                            for x, y in zip(group[0][1:], group[0][2:]))
                    if not ok:
                        ctx.spec_fail('sort|exotic-keys', 'sort with key values of an unmodelled but ordered type: not the same ordered permutation for every buffersize',
                                      dict(case, reverse=rev, outputs=repr(group)))
            elif pid == 'C06':
                got = Counter(tuple(r) for r in list(etl.join(A, B, key='k'))[1:])
                want = Counter((a[0], a[1], b[1]) for a in A[1:] for b in B[1:] if a[0] == b[0])
                gl = Counter(tuple(r) for r in list(etl.leftjoin(A, B, key='k'))[1:])
                wl = want + Counter((a[0], a[1], None) for a in A[1:] if not any(a[0] == b[0] for b in B[1:]))
                ga = Counter(tuple(r) for r in list(etl.antijoin(A, B, key='k'))[1:])
                wa = Counter(tuple(a) for a in A[1:] if not any(a[0] == b[0] for b in B[1:]))
                if got != want or gl != wl or ga != wa:
                    ctx.spec_fail('join|exotic-keys', 'join / leftjoin / antijoin on key values of an unmodelled but ordered type differ from the nested-loop definition',
                                  dict(case, join=repr(got), want=repr(want)))
            elif pid == 'C08':
                B2 = [['k', 'v']] + [[rng.choice(sub), rng.choice([0, 1, 2])] for _ in range(rng.choice([1, 2, 4]))]
                A2 = [['k', 'v']] + [[rng.choice(sub), rng.choice([0, 1, 2])] for _ in range(rng.choice([2, 3, 5]))]
                ca, cb = Counter(tuple(r) for r in A2[1:]), Counter(tuple(r) for r in B2[1:])
                comp = Counter(tuple(r) for r in list(etl.complement(A2, B2))[1:])
                inter = Counter(tuple(r) for r in list(etl.intersection(A2, B2))[1:])
                if comp != ca - cb or inter != ca & cb:
                    ctx.spec_fail('complement|exotic-keys', 'complement / intersection on cells of an unmodelled but ordered type are not the multiset operations',
                                  {'A': repr(A2), 'B': repr(B2), 'complement': repr(comp), 'intersection': repr(inter)})
            elif pid == 'C10':
                mult = lambda r: sum(1 for x in A[1:] if x[0] == r[0])
                dup = Counter(tuple(r) for r in list(etl.duplicates(A, 'k'))[1:])
                uni = Counter(tuple(r) for r in list(etl.unique(A, 'k'))[1:])
                wd = Counter(tuple(r) for r in A[1:] if mult(r) > 1)
                wu = Counter(tuple(r) for r in A[1:] if mult(r) == 1)
                ndist = len(list(etl.distinct(A, 'k'))) - 1
                keys = []
                for r in A[1:]:
                    if not any(r[0] == k for k in keys):
                        keys.append(r[0])
                if dup != wd or uni != wu or ndist != len(keys) or etl.isunique(A, 'k') != (not wd):
                    ctx.spec_fail('duplicates|exotic-keys', 'duplicates / unique / distinct / isunique on key values of an unmodelled but ordered type do not go by key multiplicity',
                                  dict(case, duplicates=repr(dup), unique=repr(uni)))
        except Exception as e:   # noqa
            ctx.spec_fail('%s|exotic-keys|raises' % pid, 'raised %r on key values of an unmodelled but ordered type' % e, case)


# ---- the documented order of the optional parameters (as read from the validated source): a call that passes them by
# position means what the same call with keywords means.  (name -> parameters after the table operands, with defaults)
SIGNATURES = {
    'join': [('key', None), ('lkey', None), ('rkey', None), ('presorted', False), ('buffersize', None), ('tempdir', None), ('cache', True), ('lprefix', None), ('rprefix', None)],
    'leftjoin': [('key', None), ('lkey', None), ('rkey', None), ('missing', None), ('presorted', False), ('buffersize', None), ('tempdir', None), ('cache', True), ('lprefix', None), ('rprefix', None)],
    'rightjoin': [('key', None), ('lkey', None), ('rkey', None), ('missing', None), ('presorted', False), ('buffersize', None), ('tempdir', None), ('cache', True), ('lprefix', None), ('rprefix', None)],
    'outerjoin': [('key', None), ('lkey', None), ('rkey', None), ('missing', None), ('presorted', False), ('buffersize', None), ('tempdir', None), ('cache', True), ('lprefix', None), ('rprefix', None)],
    'antijoin': [('key', None), ('lkey', None), ('rkey', None), ('presorted', False), ('buffersize', None), ('tempdir', None), ('cache', True)],
    'lookupjoin': [('key', None), ('lkey', None), ('rkey', None), ('missing', None), ('presorted', False), ('buffersize', None), ('tempdir', None), ('cache', True), ('lprefix', None), ('rprefix', None)],
    'hashjoin': [('key', None), ('lkey', None), ('rkey', None), ('cache', True), ('lprefix', None), ('rprefix', None)],
    'hashleftjoin': [('key', None), ('lkey', None), ('rkey', None), ('missing', None), ('cache', True), ('lprefix', None), ('rprefix', None)],
    'sort': [('key', None), ('reverse', False), ('buffersize', None), ('tempdir', None), ('cache', True)],
    'complement': [('presorted', False), ('buffersize', None), ('tempdir', None), ('cache', True), ('strict', False)],
    'intersection': [('presorted', False), ('buffersize', None), ('tempdir', None), ('cache', True)],
    'duplicates': [('key', None), ('presorted', False), ('buffersize', None), ('tempdir', None), ('cache', True)],
    'unique': [('key', None), ('presorted', False), ('buffersize', None), ('tempdir', None), ('cache', True)],
    'distinct': [('key', None), ('count', None), ('presorted', False), ('buffersize', None), ('tempdir', None), ('cache', True)],
    'mergeduplicates': [('key', 'k'), ('missing', None), ('presorted', False), ('buffersize', None), ('tempdir', None), ('cache', True)],
}
_SAMPLE_VALUES = {'key': ['k'], 'lkey': ['k'], 'rkey': ['k'], 'missing': ['M', 0], 'presorted': [False], 'buffersize': [1, 2, 5], 'tempdir': [None], 'cache': [False, True],
                  'lprefix': ['l_'], 'rprefix': ['r_'], 'reverse': [True, False], 'strict': [True, False], 'count': ['n']}


def positional_call_cases(etl, rng, ctx, names, ncases, arity):
    for ci in range(ncases):
        name = names[ci % len(names)]
        sig = SIGNATURES[name]
        tabs = []
        for j in range(arity):
            hdr = ['k', 'v'] if j == 0 else ['k', 'w']
            if name in ('complement', 'intersection'):
                hdr = ['k', 'v']
            rows = [[rng.choice([1, 2, 3, None]), rng.choice([0, 1, 5])] for _ in range(rng.choice([0, 1, 3, 5]))]
            if rng.random() < 0.3 and rows:
                rows[rng.randrange(len(rows))] = rows[0][:1]        # a short row
            tabs.append([hdr] + rows)
        upto = rng.randrange(1, len(sig) + 1)            # how many optional parameters are given
        chosen = {}
        for pname, default in sig[:upto]:
            if pname in ('lkey', 'rkey') and 'key' in chosen and chosen['key'] is not None:
                chosen[pname] = None
            elif rng.random() < 0.6 or pname == sig[upto - 1][0]:
                chosen[pname] = rng.choice(_SAMPLE_VALUES[pname])
            else:
                chosen[pname] = default
        if name.endswith('join') and chosen.get('key') is None and not (chosen.get('lkey') and chosen.get('rkey')):
            chosen['key'] = 'k'
            chosen['lkey'] = chosen['rkey'] = None if 'lkey' in chosen or True else None
        positional = [chosen.get(p, d) for p, d in sig[:upto]]
        kw = {p: chosen.get(p, d) for p, d in sig[:upto]}
        fn = getattr(etl, name)
        a = run_show(lambda: fn(*(tabs + positional)))
        b = run_show(lambda: fn(*tabs, **kw))
        ctx.case(('positional', name, repr(tabs), repr(positional)))
        ctx.count('positional-call')
        if a != b:
            ctx.spec_fail('%s|positional-arguments' % name, '%s called with its options by position differs from the same call with keywords (documented parameter order)' % name,
                          {'op': name, 'tables': repr(tabs), 'positional': repr(positional), 'keywords': repr(kw), 'by position': a, 'by keyword': b})
