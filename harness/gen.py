"""Type-directed generators for petl values, keys, rows and tables."""
import datetime as dt
from decimal import Decimal

D = Decimal

# every kind of the C04 domain, with boundary cases
UNIVERSE = [
    None,
    False, True, 0, 1, -1, 2, 3, 10**20, -(10**20),
    0.0, -0.0, 1.0, 2.5, -1.5, 0.1, 1e300, float('inf'), float('-inf'),
    D('0'), D('1'), D('2.5'), D('0.1'), D('-3'), D('Infinity'), D('-Infinity'),
    b'', b'a', b'ab', b'b', b'\xff',
    '', 'a', 'ab', 'b', 'B', '1', 'é', '\U0001F600',
    dt.date(2020, 1, 1), dt.date(2020, 1, 2), dt.date(1, 1, 1),
    dt.datetime(2020, 1, 1), dt.datetime(2020, 1, 1, 0, 0, 0, 1), dt.datetime(1999, 12, 31, 23, 59, 59),
    dt.time(0, 0), dt.time(12, 30), dt.time(23, 59, 59, 999999),
    (), (1,), (1, 'a'), (1, None), (None,), (1, 2), (1, 2.0), ('a', 1), ((1, 2), 3), ((1,), (2,)),
    [], [1], [1, 'a'], [None], [1, [2, None]], (1, [2]),
]

# a small universe for key cells: many ties, every rung of the ladder
SMALL_KEYS = [None, True, 1, 1.0, 2, -1, 2.5, D('2.5'), 0.1, D('0.1'), 'a', 'b', b'a', dt.date(2020, 1, 1),      # 0.1 != Decimal('0.1'), though float(Decimal('0.1')) == 0.1
             
              dt.datetime(2020, 1, 1), (1, 'a'), (1, None)]
# hashable scalar keys only, few distinct values
SCALAR_KEYS = [None, 1, 2, 3, 'a', 'b', 2.5, True, -1, -2]      # hash(-1) == hash(-2) in CPython
INT_KEYS = [1, 2, 3, -1, -2]
TEXT = ['a', 'b', 'c', '', 'xy']
FIELD_NAMES = ['id', 'k', 'v', 'w', 'x', 'y', 'foo', 'bar', 'baz']


def rand_val(rng, depth=0, maxdepth=4):
    r = rng.random()
    if depth < maxdepth and r < 0.25:
        n = rng.choice([0, 1, 1, 2, 2, 3])
        xs = [rand_val(rng, depth + 1, maxdepth) for _ in range(n)]
        return tuple(xs) if rng.random() < 0.6 else xs
    return rng.choice(UNIVERSE[:UNIVERSE.index(())])


def fresh(v):
    """an equal value that is a different object wherever CPython allows it (strings of two or more characters, ints
    outside the small-int cache, floats, Decimals, bytes, dates, sequences): cells read from files are never the same
    object as an argument, so `is` must not stand in for `==`"""
    t = type(v)
    if t is str:
        return ''.join(list(v)) if len(v) > 1 else v
    if t is int:
        return int(str(v)) if not (-5 <= v <= 256) else v
    if t is float:
        return float(repr(v))
    if t is Decimal:
        return Decimal(str(v))
    if t is bytes:
        return bytes(bytearray(v)) if len(v) > 1 else v
    if t is tuple:
        return tuple(fresh(x) for x in v)
    if t is list:
        return [fresh(x) for x in v]
    if t is dt.datetime:
        return v.replace()
    if t is dt.date:
        return v.replace()
    if t is dt.time:
        return v.replace()
    return v


def header(rng, n=None, dup=0.0, names=None):
    names = list(names or FIELD_NAMES)
    if n is None:
        n = rng.choice([1, 2, 2, 3, 3, 4])
    rng.shuffle(names)
    hdr = names[:n]
    if n > 1 and rng.random() < dup:
        hdr[rng.randrange(1, n)] = hdr[0]
    return hdr


def nrows(rng, maxn=8):
    return rng.choice([0, 0, 1, 1, 2, 3, 4, 5, 6, maxn])


def table(rng, hdr=None, pools=None, maxn=8, ragged=0.2, n=None, default_pool=None):
    """list-of-lists table; pools: dict field index -> list of candidate cells"""
    if hdr is None:
        hdr = header(rng)
    w = len(hdr)
    if n is None:
        n = nrows(rng, maxn)
    default_pool = default_pool or SMALL_KEYS
    rag = rng.random() < ragged
    rows = []
    for _ in range(n):
        row = []
        for j in range(w):
            pool = (pools or {}).get(j, default_pool)
            row.append(fresh(rng.choice(pool)))
        if rag and rng.random() < 0.4:
            k = rng.choice([0, max(0, w - 1), w + 1, max(0, w - 2)])
            row = (row + [fresh(rng.choice(default_pool))])[:k] if k > w else row[:k]
        rows.append(row)
    return [list(hdr)] + rows


def pylit(x):
    """a Python-literal rendering for replay files"""
    return repr(x)
