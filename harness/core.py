"""Common machinery of every check: obligations (build + audit), correspondence bookkeeping,
decision (pass / KNOWN-FINDING / VIOLATION), replay files, evidence."""
import os, sys, json, time, random, hashlib, traceback
from . import lean

VERIF = lean.VERIF
EVID = os.path.join(VERIF, 'evidence')
REPLAYS = os.path.join(EVID, 'replays')
KNOWN = os.path.join(VERIF, 'known_findings.json')

TRUSTED_COMMON = [
    'Lean 4.33.0 kernel; axioms allowed: propext, Classical.choice, Quot.sound (audited by #print axioms on every run)',
    'hand-written Lean models under lean/Petl; tied to /repo by the correspondence harness (harness/*.py), '
    'its value coding (harness/proto.py, lean/Petl/Proto.lean) and generators',
    'CPython semantics of the builtins the models abstract (see DESIGN.md section 5)',
]


def load_known():
    try:
        d = json.load(open(KNOWN))
    except FileNotFoundError:
        return {'open': [], 'fixed': []}
    return d


class Ctx:
    def __init__(self, pid, tier, seed):
        self.pid = pid
        self.tier = tier
        self.seed = seed
        self.rng = random.Random((seed, pid).__repr__())
        self.t0 = time.time()
        self.obligations = 0
        self.discharged = 0
        self.obligation_names = []
        self.proof_failures = []      # (name, detail)
        self.corr_failures = []       # dict(op, detail, case)   model/tie problems (no property-level failing input)
        self.spec_failures = []       # dict(sig, what, case)    property fails on a concrete input
        self.evaluations = 0
        self.nontrivial = set()
        self.dist = {}
        self.samples = []
        self.exact_total = 0
        self.exact_agree = 0
        self.exact_first_drift = None
        self.trusted = list(TRUSTED_COMMON)
        self.assumptions = []
        self.rule = ''
        self.checker_cmds = []
        self.notes = []
        self.exhaustive = False
        self.extra = {}
        self.search_only = False      # extended failing-input search (run.py): dynamic part only, obligations not re-checked

    # ---------------------------------------------------------------- bookkeeping
    def thorough(self):
        return self.tier == 'thorough'

    def count(self, key, n=1):
        self.dist[key] = self.dist.get(key, 0) + n

    def case(self, nontrivial_key=None, sample=None):
        """record one evaluated case; nontrivial_key: hashable identity if the case is non-trivial"""
        self.evaluations += 1
        if nontrivial_key is not None:
            self.nontrivial.add(hashlib.sha1(repr(nontrivial_key).encode()).digest()[:8])
        if sample is not None and len(self.samples) < 6:
            self.samples.append(sample)

    def exact(self, agree, case=None):
        self.exact_total += 1
        if agree:
            self.exact_agree += 1
        elif self.exact_first_drift is None:
            self.exact_first_drift = case

    # ---------------------------------------------------------------- obligations
    def prove(self, modules, required, extra_targets=('driver',), gen_note=None):
        """Build the property's proof modules (+driver) and audit every theorem in them.
        `required`: theorem names that must be present (fully qualified)."""
        if self.search_only:
            return True
        modules = list(modules)
        hits = lean.forbidden_hits()
        self.obligations += 1
        self.obligation_names.append('source tree free of sorry/admit/axiom/native_decide/bv_decide/implemented_by/unsafe')
        if hits:
            self.proof_failures.append(('forbidden-construct', '; '.join(hits[:5])))
        else:
            self.discharged += 1
        ok, log = lean.build(modules + list(extra_targets), clean=modules if self.thorough() else None)
        self.checker_cmds.append('cd lean && lake build ' + ' '.join(modules + list(extra_targets)))
        if not ok:
            errs = [l for l in log.split('\n') if 'error' in l][:8]
            # which module failed?
            self.proof_failures.append(('lake-build', '\n'.join(errs) or log[-800:]))
        for m in modules:
            try:
                names, n_ex = lean.theorems_in(m)
            except FileNotFoundError:
                self.proof_failures.append((m, 'module file missing'))
                names, n_ex = [], 0
            missing = [r for r in required if r.startswith(self._ns_of(m)) and r not in names] if False else []
            allnames = names
            self.obligations += len(allnames) + n_ex
            self.obligation_names += allnames + ['%s: %d non-vacuity/bridge examples' % (m, n_ex)] * (1 if n_ex else 0)
            if not ok:
                # try to find out whether this module itself still builds
                ok_m, _ = lean.build([m])
                if not ok_m:
                    continue
            res, out = lean.audit(m, allnames)
            for t in allnames:
                ax = res.get(t)
                if ax is None:
                    self.proof_failures.append((t, 'theorem missing or audit failed'))
                elif not set(ax) <= lean.ALLOWED_AXIOMS:
                    self.proof_failures.append((t, 'depends on axioms %s' % ax))
                else:
                    self.discharged += 1
            self.discharged += n_ex   # examples are checked by the successful build of the module
        self.checker_cmds.append('lake env lean <audit file with #print axioms for every theorem of %s>' % ', '.join(modules))
        have = set()
        for m in modules:
            try:
                have |= set(lean.theorems_in(m)[0])
            except FileNotFoundError:
                pass
        for r in required:
            if r not in have:
                self.obligations += 1
                self.proof_failures.append((r, 'required property theorem not found in %s' % modules))
        if self.thorough() and ok:
            okc, outc = lean.leanchecker(modules)
            self.obligations += 1
            self.obligation_names.append('leanchecker replays ' + ' '.join(modules))
            self.checker_cmds.append('lake env leanchecker ' + ' '.join(modules))
            if okc:
                self.discharged += 1
            else:
                self.proof_failures.append(('leanchecker', outc[-500:]))
        return ok

    def _ns_of(self, m):
        return ''

    def bridge(self, name, ok, detail=''):
        """a bridging obligation checked outside `prove` (e.g. translator acceptance)"""
        if self.search_only:
            return
        self.obligations += 1
        self.obligation_names.append(name)
        if ok:
            self.discharged += 1
        else:
            self.proof_failures.append((name, detail))

    # ---------------------------------------------------------------- failures
    def corr_fail(self, op, detail, case):
        if len(self.corr_failures) < 50:
            self.corr_failures.append({'op': op, 'detail': detail, 'case': case})

    def spec_fail(self, sig, what, case):
        """the property itself fails on a concrete input of the real code"""
        for f in self.spec_failures:
            if f['sig'] == sig:
                f['count'] += 1
                # keep the smallest case
                if len(repr(case)) < len(repr(f['case'])):
                    f['case'] = case
                    f['what'] = what
                return
        self.spec_failures.append({'sig': sig, 'what': what, 'case': case, 'count': 1})

    # ---------------------------------------------------------------- finish
    def _write_replay(self, kind, payload):
        os.makedirs(REPLAYS, exist_ok=True)
        h = hashlib.sha1(json.dumps(payload, sort_keys=True, default=repr).encode()).hexdigest()[:10]
        path = os.path.join(REPLAYS, '%s-%s-%s.json' % (self.pid, kind, h))
        payload = dict(payload, property=self.pid, kind=kind, seed=payload.get('seed', self.seed), tier=self.tier)
        with open(path, 'w') as f:
            json.dump(payload, f, indent=1, default=repr)
        return os.path.relpath(path, VERIF)

    def finish(self):
        known = load_known()
        open_sigs = {k['signature']: k for k in known.get('open', []) if k.get('property') == self.pid}
        lines = []
        violations = 0
        known_hits = 0
        for f in self.spec_failures:
            if f['sig'] in open_sigs:
                known_hits += 1
                lines.append('KNOWN-FINDING: property=%s %s [%s]' % (self.pid, open_sigs[f['sig']].get('what', f['what']), f['sig']))
            else:
                violations += 1
                pl = {'signature': f['sig'], 'what': f['what'], 'case': f['case'], 'occurrences': f['count']}
                if 'seed' in f:
                    pl['seed'] = f['seed']      # found by the extended search under another seed
                rp = self._write_replay('input', pl)
                lines.append('VIOLATION property=%s replay=%s' % (self.pid, rp))
        # open known findings that did not reproduce are reported informally (not an alarm)
        for s, k in open_sigs.items():
            if not any(f['sig'] == s for f in self.spec_failures):
                self.notes.append('open known finding %s did not reproduce in this run' % s)
        if violations == 0 and (self.proof_failures or self.corr_failures):
            violations += 1
            rp = self._write_replay('tie', {
                'broken_obligations': [{'name': n, 'detail': d} for n, d in self.proof_failures],
                'broken_correspondence': self.corr_failures[:10],
                'note': 'no input on which the property fails was found by the search; the property is no longer shown to hold'})
            lines.append('VIOLATION property=%s replay=%s no-failing-input-found' % (self.pid, rp))
        cov = {
            'obligations': self.obligations,
            'discharged': self.discharged,
            'checker_cmd': ' && '.join(self.checker_cmds) or 'none',
            'trusted_base': self.trusted,
            'evaluations': self.evaluations,
            'distinct_nontrivial': len(self.nontrivial),
            'rule': self.rule,
            'samples': self.samples or ['(no correspondence cases in this run)'],
            'exhaustive': self.exhaustive,
            'input_distribution': dict(sorted(self.dist.items())),
            'exact_agreement': {'compared': self.exact_total, 'agree': self.exact_agree, 'first_drift': self.exact_first_drift},
            'obligation_names': self.obligation_names,
            'undischarged': [{'name': n, 'detail': d[:400]} for n, d in self.proof_failures],
            'correspondence_failures': len(self.corr_failures),
            'property_failures_on_inputs': [{'signature': f['sig'], 'what': f['what'], 'count': f['count']} for f in self.spec_failures],
            'known_findings_reproduced': known_hits,
            'notes': self.notes,
        }
        cov.update(self.extra)
        ev = {
            'property_id': self.pid,
            'tier': self.tier,
            'seed': self.seed,
            'level': 'proof',
            'coverage': cov,
            'assumptions': self.assumptions,
            'wall_s': round(time.time() - self.t0, 2),
            'violations': violations,
        }
        os.makedirs(EVID, exist_ok=True)
        with open(os.path.join(EVID, self.pid + '.json'), 'w') as f:
            json.dump(ev, f, indent=1, default=repr)
        for l in lines:
            print(l)
        print('%s %s: obligations %d/%d, cases %d (%d distinct non-trivial), exact agreement %d/%d, %.1fs -> %s' % (
            self.pid, self.tier, self.discharged, self.obligations, self.evaluations, len(self.nontrivial),
            self.exact_agree, self.exact_total, time.time() - self.t0, 'VIOLATION' if violations else 'ok'))
        sys.stdout.flush()
        return 1 if violations else 0
