"""Build, audit and run the Lean side."""
import os, re, subprocess, fcntl, time, json, hashlib

HERE = os.path.dirname(os.path.abspath(__file__))
VERIF = os.path.dirname(HERE)
LEAN_DIR = os.path.join(VERIF, 'lean')
DRIVER = os.path.join(LEAN_DIR, '.lake', 'build', 'bin', 'driver')
ALLOWED_AXIOMS = {'propext', 'Classical.choice', 'Quot.sound'}
FORBIDDEN = re.compile(r'\bsorry\b|\badmit\b|^\s*axiom\s|native_decide|bv_decide|implemented_by|\bunsafe\s|maxHeartbeats\s+0\b')


class Lock:
    """builds take the lock exclusively; audits and leanchecker runs (readers of the build products) share it"""

    def __init__(self, shared=False):
        self.shared = shared

    def __enter__(self):
        self.f = open(os.path.join(LEAN_DIR, '.build.lock'), 'a')
        fcntl.flock(self.f, fcntl.LOCK_SH if self.shared else fcntl.LOCK_EX)
        return self

    def __exit__(self, *a):
        fcntl.flock(self.f, fcntl.LOCK_UN)
        self.f.close()


def _run(cmd, timeout=3000, input=None):
    p = subprocess.run(cmd, cwd=LEAN_DIR, stdout=subprocess.PIPE, stderr=subprocess.STDOUT,
                       text=True, timeout=timeout, input=input)
    return p.returncode, p.stdout


def build(targets, clean=None):
    """lake build the targets; returns (ok, log).  `clean`: modules whose build products are removed first, inside the
    same exclusive lock — no other check ever sees the tree with an olean missing (parallel thorough runs share modules)"""
    with Lock():
        if clean:
            clean_modules(clean)
        rc, out = _run(['lake', 'build'] + list(targets))
    return rc == 0, out


def strip_comments(src):
    # remove /- ... -/ (nested not handled beyond one level, fine for our files) and -- ... comments
    out = []
    i = 0
    depth = 0
    n = len(src)
    while i < n:
        if src.startswith('/-', i):
            depth += 1
            i += 2
        elif depth and src.startswith('-/', i):
            depth -= 1
            i += 2
        elif depth:
            if src[i] == '\n':
                out.append('\n')
            i += 1
        elif src.startswith('--', i):
            while i < n and src[i] != '\n':
                i += 1
        else:
            out.append(src[i])
            i += 1
    return ''.join(out)


def forbidden_hits():
    hits = []
    for root, dirs, files in os.walk(LEAN_DIR):
        if '.lake' in root.split(os.sep):
            continue
        for fn in files:
            if not fn.endswith('.lean'):
                continue
            p = os.path.join(root, fn)
            src = strip_comments(open(p).read())
            for ln, line in enumerate(src.split('\n'), 1):
                if FORBIDDEN.search(line):
                    hits.append('%s:%d: %s' % (os.path.relpath(p, VERIF), ln, line.strip()[:100]))
    return hits


def theorems_in(module):
    """names of theorems declared in a module file (namespace-qualified by `namespace` lines, flat)"""
    path = os.path.join(LEAN_DIR, module.replace('.', '/') + '.lean')
    src = strip_comments(open(path).read())
    ns = []
    names = []
    n_examples = 0
    for line in src.split('\n'):
        m = re.match(r'\s*namespace\s+(\S+)', line)
        if m:
            ns.append(m.group(1))
            continue
        m = re.match(r'\s*end\s+(\S+)', line)
        if m and ns and ns[-1] == m.group(1):
            ns.pop()
            continue
        m = re.match(r'\s*(?:protected\s+|private\s+)?theorem\s+(\S+)', line)
        if m:
            names.append('.'.join(ns + [m.group(1)]))
        if re.match(r'\s*example\b', line):
            n_examples += 1
    return names, n_examples


def audit(module, theorems):
    """#print axioms for each theorem; returns dict name -> sorted axiom list, or None if missing/failed"""
    body = 'import %s\n' % module + ''.join('#print axioms %s\n' % t for t in theorems)
    tag = '%s_%d_%d' % (hashlib.sha1(body.encode()).hexdigest()[:10], os.getpid(), int(time.time() * 1e6) % 10**9)
    fn = os.path.join(LEAN_DIR, '.lake', 'audit_%s.lean' % tag)     # unique per process: checks may run in parallel
    os.makedirs(os.path.dirname(fn), exist_ok=True)
    with open(fn, 'w') as f:
        f.write(body)
    try:
        with Lock(shared=True):
            rc, out = _run(['lake', 'env', 'lean', fn])
    finally:
        try:
            os.unlink(fn)
        except OSError:
            pass
    res = {t: None for t in theorems}
    # messages may wrap over several lines: join continuation lines
    text = re.sub(r'\n\s+', ' ', out)
    for m in re.finditer(r"'([^']+)' depends on axioms: \[([^\]]*)\]", text):
        res[m.group(1)] = sorted(a.strip() for a in m.group(2).split(',') if a.strip())
    for m in re.finditer(r"'([^']+)' does not depend on any axioms", text):
        res[m.group(1)] = []
    return res, out


def leanchecker(modules):
    with Lock():
        rc, out = _run(['lake', 'env', 'leanchecker'] + list(modules), timeout=3000)
    return rc == 0, out


def clean_modules(modules):
    """remove the build products of the given modules so that lake re-elaborates them"""
    for m in modules:
        base = os.path.join(LEAN_DIR, '.lake', 'build', 'lib', 'lean', m.replace('.', '/'))
        for ext in ('.olean', '.ilean', '.trace', '.olean.hash', '.ilean.hash', '.olean.server', '.olean.private'):
            try:
                os.unlink(base + ext)
            except OSError:
                pass


def run_driver(lines, timeout=3000):
    """feed lines to the compiled driver, return list of output lines (same length)"""
    if not lines:
        return []
    for l in lines:
        assert '\n' not in l
    data = '\n'.join(lines) + '\n'
    if os.path.exists(DRIVER):
        cmd = [DRIVER]
    else:
        cmd = ['lake', 'env', 'lean', '--run', 'Driver.lean']
    p = subprocess.run(cmd, cwd=LEAN_DIR, input=data, stdout=subprocess.PIPE, stderr=subprocess.PIPE,
                       text=True, timeout=timeout)
    outs = p.stdout.split('\n')
    if outs and outs[-1] == '':
        outs.pop()
    if p.returncode != 0 or len(outs) != len(lines):
        raise RuntimeError('driver failed rc=%s got %d lines for %d inputs; stderr=%s' %
                           (p.returncode, len(outs), len(lines), p.stderr[:500]))
    return outs
